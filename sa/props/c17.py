"""C17 - Identity attestations and token disclosure require the owner's consent."""
from __future__ import annotations

import ast

from ..cfg import Node
from ..core import Ctx
from ..match import Fact, _atoms_with_polarity, arg, call_name, calls, expr_context_facts, fact_of, mentions, stores
from ..match import local_defs as _match_local_defs
from ..model import NOCONST, AnalysisError, FuncInfo, ancestors, chain, clone, const_value, enclosing_stmt, head, norm, parent, set_parents, strip_cast, walk_no_nested



def local_defs(fi: FuncInfo, name: str) -> list:
    """match.local_defs, remembered per function node (the rules below ask for the same locals very often)"""
    memo = fi.node.__dict__.setdefault("_c17_local_defs", {})
    if name not in memo:
        memo[name] = _match_local_defs(fi, name)
    return memo[name]


def single_def(fi: FuncInfo, name: str):
    """(value, tuple_index) if `name` is a non-parameter local assigned exactly once, else None (as match.single_def)."""
    if name in fi.params():
        return None
    d = local_defs(fi, name)
    if len(d) == 1 and d[0][1] is not None:
        return d[0][1], d[0][2]
    return None


def resolve(fi: FuncInfo, expr: ast.AST, depth: int = 4) -> ast.AST:
    """Follow single-assignment local aliases (as match.resolve)."""
    if expr is None:
        return None
    expr = strip_cast(expr)
    while depth > 0 and isinstance(expr, ast.Name):
        d = single_def(fi, expr.id)
        if d is None or d[1] is not None:
            break
        expr = strip_cast(d[0])
        depth -= 1
    return expr


LEVEL = "other"
EXPLANATION = (
    "Consent as dominance facts that are history independent (each guard reads only the current registration of that "
    "hash): the single `return True` of should_sign is dominated by the negation of every refusal reason (unknown token, "
    "missing keys, unregistered hash, other subject key, older than 300 s, other name, other metadata, already "
    "attested) with tuple positions derived from add_known_hash; attestation creation and sending are dominated by a "
    "solicited, correctly substantiated disclosure and a truthy should_sign for that pseudonym and metadata; database "
    "inserts of attestations/metadata are dominated by verify() under the very key recorded, and never replace a stored "
    "row (the stored rows are the memory of the 'already attested' refusal); token hand-out derives only "
    "from token_chain[:permissions.get(peer, 0)], permissions written only for the chosen peer, the map created empty per "
    "community; verify(key) is truthy only through the signature primitive for the given key.  Expressions are "
    "compared after substituting single-assignment locals by their definitions; guards are read from the CFG over feasible "
    "paths (a multiply assigned verdict local carries its last definition; a tested helper call contributes what holds at "
    "the helper's returns with that outcome, parameters replaced by the arguments); constructs that moved into private "
    "helpers are analysed there with the callers' facts.  Verdicts may be Enum members, sentinels or fields of result "
    "objects (NamedTuple / dataclass / tuple): a test on them selects the returns of the deciding helper that produce "
    "that value, and a guard counts when every such return establishes it.  Callables are followed to where they run "
    "(functools.partial, lambdas, bound methods in dispatch tables, methods of private parameter-holder objects); "
    "collections filtered by should_sign carry the consent for each element; token hand-out is typed through lazy "
    "pipelines (islice, takewhile, dropwhile, map, accumulate, reduce, zip with a bounded range).  add_known_hash may "
    "write only the registration of the hash it was given, holding the name, subject key and metadata exactly as given.  "
    "A verdict may be delivered by exception: a statement call of a readable helper that can raise contributes, once it "
    "has completed, what holds at every normal exit of the helper.  `table.get(k, SENTINEL) is not SENTINEL` (module- or "
    "class-level object() bound once) says that k is in the table; the extra-metadata dict is recognised by what it "
    "computes (items / keys of the transaction minus the three required names, by filter or set difference).  "
    "own-attestation-recorded: the 'already attested' scan reads stored rows, so the key of table Attestations (parsed "
    "from the CREATE TABLE text of get_schema) has to include the authority column whenever insert_attestation resolves "
    "key conflicts silently."
)

IC = "ipv8/attestation/identity/community.py"
IM = "ipv8/attestation/identity/manager.py"
ID = "ipv8/attestation/identity/database.py"


# ------------------------------------------------------------------------------------ expression canonicalisation
def _copy(n):
    """Structural copy of an expression (fields and positions only: the engine's parent links are not followed)."""
    if isinstance(n, ast.AST):
        new = n.__class__()
        for f in n._fields:
            if hasattr(n, f):
                setattr(new, f, _copy(getattr(n, f)))
        for a in ("lineno", "col_offset", "end_lineno", "end_col_offset"):
            if hasattr(n, a):
                setattr(new, a, getattr(n, a))
        return new
    if isinstance(n, list):
        return [_copy(x) for x in n]
    return n


_CMP_OPS = {"eq": ast.Eq, "ne": ast.NotEq, "lt": ast.Lt, "le": ast.LtE, "gt": ast.Gt, "ge": ast.GtE, "is_": ast.Is, "is_not": ast.IsNot}


def _operator_name(fi: FuncInfo, f: ast.AST) -> str | None:
    """the function of the operator module that callee expression f names (operator.eq, or eq imported from operator), else None"""
    if isinstance(f, ast.Attribute) and isinstance(f.value, ast.Name) and f.value.id == "operator" and fi.module.imports.get("operator", ("operator", None))[0] == "operator":
        return f.attr
    if isinstance(f, ast.Name) and fi.module.imports.get(f.id, (None, None))[0] == "operator" and f.id not in fi.params() and not local_defs(fi, f.id):
        return fi.module.imports[f.id][1]
    return None


def _plain_call(fi: FuncInfo, n: ast.AST) -> ast.AST:  # noqa: C901, PLR0911
    """
    The syntax a call of an operator-module function stands for (the node itself when it is none): eq(a, b) -> a == b,
    contains(c, k) -> k in c, not_(a) -> not a, getitem(x, i) -> x[i], itemgetter(i)(x) -> x[i], attrgetter("a")(x) -> x.a,
    methodcaller("m", ...)(x) -> x.m(...).
    """
    if not isinstance(n, ast.Call) or n.keywords and not isinstance(n.func, ast.Call) or any(isinstance(a, ast.Starred) for a in n.args):
        return n
    if isinstance(n.func, ast.Call) and len(n.args) == 1 and not n.keywords and not any(isinstance(a, ast.Starred) for a in n.func.args):
        maker, made = _operator_name(fi, n.func.func), n.func
        x = n.args[0]
        if maker == "itemgetter" and len(made.args) == 1 and not made.keywords:
            return ast.Subscript(value=x, slice=made.args[0], ctx=ast.Load())
        if maker == "attrgetter" and len(made.args) == 1 and not made.keywords and isinstance(const_value(made.args[0]), str) and const_value(made.args[0]).isidentifier():
            return ast.Attribute(value=x, attr=const_value(made.args[0]), ctx=ast.Load())
        if maker == "methodcaller" and made.args and isinstance(const_value(made.args[0]), str) and const_value(made.args[0]).isidentifier() and all(k.arg is not None for k in made.keywords):
            return ast.Call(func=ast.Attribute(value=x, attr=const_value(made.args[0]), ctx=ast.Load()), args=list(made.args[1:]), keywords=list(made.keywords))
        return n
    if isinstance(n.func, ast.Name) and n.func.id == "getattr" and len(n.args) == 2 and not n.keywords and isinstance(const_value(n.args[1]), str) \
            and const_value(n.args[1]).isidentifier() and not const_value(n.args[1]).startswith("__") \
            and n.func.id not in fi.params() and not local_defs(fi, n.func.id) and "getattr" not in fi.module.imports:
        return ast.Attribute(value=n.args[0], attr=const_value(n.args[1]), ctx=ast.Load())      # getattr(x, "name") is x.name
    op = _operator_name(fi, n.func)
    if op is None or n.keywords:
        return n
    if op in _CMP_OPS and len(n.args) == 2:
        return ast.Compare(left=n.args[0], ops=[_CMP_OPS[op]()], comparators=[n.args[1]])
    if op == "contains" and len(n.args) == 2:
        return ast.Compare(left=n.args[1], ops=[ast.In()], comparators=[n.args[0]])
    if op == "not_" and len(n.args) == 1:
        return ast.UnaryOp(op=ast.Not(), operand=n.args[0])
    if op == "truth" and len(n.args) == 1:
        return n.args[0]
    if op == "getitem" and len(n.args) == 2:
        return ast.Subscript(value=n.args[0], slice=n.args[1], ctx=ast.Load())
    return n


def _comp_bound(n: ast.AST) -> set[str]:
    return {x.id for g in n.generators for x in ast.walk(g.target) if isinstance(x, ast.Name)}


def _stable_def(fi: FuncInfo, name: str, seen: frozenset = frozenset(), tuples: bool = False) -> ast.AST | None:
    """
    The defining expression of local `name` if substituting it for the name is sound: the local is assigned exactly once
    (plain / annotated / walrus assignment, no tuple position) and every local its definition reads is itself never
    rebound (parameter without assignment, or single-assignment local).  Otherwise None.
    """
    if name in seen:
        return None
    d = single_def(fi, name)
    if d is None:
        d = _agreeing_defs(fi, name)
    if d is None:
        return None
    if d[1] is not None:
        # `a, b = <expr>`: b is <expr>[1] (asked for explicitly; only for a flat target without a starred element)
        st = local_defs(fi, name)[0][0]
        tg = st.targets[0] if isinstance(st, ast.Assign) and len(st.targets) == 1 else st.target if isinstance(st, ast.AnnAssign) else None
        if not tuples or not isinstance(tg, (ast.Tuple, ast.List)) or not all(isinstance(t, ast.Name) for t in tg.elts) or isinstance(strip_cast(d[0]), (ast.Tuple, ast.List)):
            return None
        val = ast.Subscript(value=strip_cast(d[0]), slice=ast.Constant(value=d[1]), ctx=ast.Load())
    else:
        val = strip_cast(d[0])
    bound: set[str] = set()
    for n in ast.walk(val):
        if isinstance(n, (ast.ListComp, ast.SetComp, ast.DictComp, ast.GeneratorExp)):
            bound |= _comp_bound(n)
        elif isinstance(n, ast.Lambda):
            bound |= {a.arg for a in [*n.args.posonlyargs, *n.args.args, *n.args.kwonlyargs]}
    for n in ast.walk(val):
        if isinstance(n, ast.Name) and n.id not in bound and n.id != name:
            defs = local_defs(fi, n.id)
            if not defs:
                continue                      # parameter that is never rebound / global / builtin
            if n.id in fi.params() or (len(defs) != 1 and _agreeing_defs(fi, n.id) is None):
                return None                   # rebound parameter or multiply assigned local: value may differ at the use
    return val


def _agreeing_defs(fi: FuncInfo, name: str):
    """
    (value, None) when the non-parameter local `name` is assigned in several places (one per branch), every time by a
    plain assignment of the very same expression: whichever assignment reached the use, the local holds that expression.
    """
    if name in fi.params():
        return None
    ds = local_defs(fi, name)
    if len(ds) < 2 or any(v is None or i is not None or not isinstance(st, (ast.Assign, ast.AnnAssign)) for st, v, i in ds):
        return None
    texts = {norm(strip_cast(v)) for st, v, i in ds}
    if len(texts) != 1 or any(isinstance(n, ast.Name) and n.id == name for n in ast.walk(ds[0][1])):
        return None
    return ds[0][1], None


class _Expander(ast.NodeTransformer):
    def __init__(self, fi: FuncInfo, getsub: tuple[str, ...], seen: frozenset = frozenset()) -> None:
        self.fi, self.getsub, self.seen = fi, getsub, seen
        self.bound: set[str] = set()
        # "#field:<table>:<attribute>=<position>": entries of <table> are records whose <attribute> is also component <position>
        self.fields = {}
        for g in getsub:
            if g.startswith("#field:"):
                table, rest = g[len("#field:"):].rsplit(":", 1)
                self.fields[(table, rest.split("=")[0])] = int(rest.split("=")[1])

    def visit_Attribute(self, n: ast.Attribute):  # noqa: N802
        n = self.generic_visit(n)
        if isinstance(n.ctx, ast.Load):
            n.value = self._entry_read(n.value)
        if isinstance(n.ctx, ast.Load) and isinstance(n.value, ast.Name) and n.value.id == "self" and "self" not in self.bound:
            val = _property_value(self.fi, n.attr)
            if val is not None:
                return _Expander(self.fi, self.getsub, self.seen).visit(val)
        if self.fields and isinstance(n.ctx, ast.Load) and isinstance(n.value, ast.Subscript) and (norm(n.value.value), n.attr) in self.fields:
            return ast.Subscript(value=n.value, slice=ast.Constant(value=self.fields[(norm(n.value.value), n.attr)]), ctx=ast.Load())
        return n

    def visit_Name(self, n: ast.Name):  # noqa: N802
        if not isinstance(n.ctx, ast.Load) or n.id in self.bound:
            return n
        val = _stable_def(self.fi, n.id, self.seen, "#tuples" in self.getsub)
        if val is None:
            lit = _module_literal(self.fi, n.id)
            return _copy(lit) if lit is not None else n
        return _Expander(self.fi, self.getsub, self.seen | {n.id}).visit(_copy(val))

    def _comp(self, n):
        old = self.bound
        self.bound = old | _comp_bound(n)
        r = self.generic_visit(n)
        self.bound = old
        return r
    visit_ListComp = visit_SetComp = visit_DictComp = visit_GeneratorExp = _comp

    def visit_Lambda(self, n: ast.Lambda):  # noqa: N802
        old = self.bound
        self.bound = old | {a.arg for a in [*n.args.posonlyargs, *n.args.args, *n.args.kwonlyargs]}
        r = self.generic_visit(n)
        self.bound = old
        return r

    def visit_Call(self, n: ast.Call):  # noqa: N802
        s = strip_cast(n)
        if s is not n:
            return self.visit(s)
        plain = _plain_call(self.fi, n)
        if plain is not n:
            return self.visit(plain)              # an operator-module spelling: read as the syntax it stands for
        n = self.generic_visit(n)
        val = _pure_call_value(self.fi, n)
        if val is not None:
            return val                            # a one-expression function (possibly of another module): what the call evaluates to
        # table.get(k) / table.get(k, None) read the same entry as table[k] wherever the entry exists
        if isinstance(n.func, ast.Attribute) and n.func.attr == "get" and not n.keywords and norm(n.func.value) in self.getsub \
                and (len(n.args) == 1 or (len(n.args) == 2 and const_value(n.args[1]) is None)) and not isinstance(n.args[0], ast.Starred):
            return ast.Subscript(value=n.func.value, slice=n.args[0], ctx=ast.Load())
        return n

    def _entry_read(self, v: ast.AST) -> ast.AST:
        """
        `table.get(k, SENTINEL)` in the value position of `.attr` / `[i]`: the entry table[k] wherever it exists - and where it
        does not, the read fails on the sentinel (an object() / Enum member has neither the attribute nor items), so a
        completed read is a read of the entry.  In any other position (a test, a comparison) the call is kept as written.
        """
        c = strip_cast(v)
        if isinstance(c, ast.Call) and isinstance(c.func, ast.Attribute) and c.func.attr == "get" and not c.keywords and len(c.args) == 2 \
                and not any(isinstance(a, ast.Starred) for a in c.args) and norm(c.func.value) in self.getsub and const_value(c.args[1]) is not None \
                and _fixed_default(self.fi, c.args[1]) and str(getattr(_global_const(self.fi, c.args[1]), "owner", "")).startswith("object@"):
            return ast.Subscript(value=c.func.value, slice=c.args[0], ctx=ast.Load())
        return v

    def visit_Subscript(self, n: ast.Subscript):  # noqa: N802
        n = self.generic_visit(n)
        if isinstance(n.ctx, ast.Load):
            n.value = self._entry_read(n.value)
        return n


def _fixed_default(fi: FuncInfo, d: ast.AST) -> bool:
    """
    The fallback of a `.get(k, <d>)` is None or one fixed object: an Enum member or a module-level `object()` sentinel that
    is bound exactly once (evaluating <d> twice gives the identical object, so `t.get(k, d) is d` holds whenever k is
    missing from t - whatever t stores).
    """
    if isinstance(d, ast.Starred):
        return False
    if const_value(d) is None:
        return True
    try:
        return isinstance(_global_const(fi, d), _Sym)
    except Exception:  # noqa: BLE001
        return False


_PURE_DEPTH = [0]


def _same_global(m1, m2, name: str) -> bool:
    """a free name means the same thing in both modules: a builtin neither rebinds, or the same class / function / constant / import"""
    if m1 is m2:
        return True
    import builtins
    try:
        r1, r2 = _REPO.resolve_name(m1, name), _REPO.resolve_name(m2, name)
    except Exception:  # noqa: BLE001
        return False
    if r1 is None and r2 is None:
        i1, i2 = m1.imports.get(name), m2.imports.get(name)
        if i1 is None and i2 is None:
            return hasattr(builtins, name)
        return i1 is not None and i1 == i2
    if isinstance(r1, tuple) and isinstance(r2, tuple):
        return len(r1) == len(r2) and all(a is b or a == b for a, b in zip(r1, r2))
    return r1 is r2 and r1 is not None


def _one_expression_target(fi: FuncInfo, call: ast.Call):
    """the function a call runs when that function is nothing but `return <expression>` (plain / static / class method, not async, not a generator); else None"""
    f = call.func
    if isinstance(f, ast.Name):
        if f.id in fi.params() or local_defs(fi, f.id):
            return None
    elif not (isinstance(f, ast.Attribute) and isinstance(f.value, ast.Name) and (f.value.id in ("self", "cls") or not (f.value.id in fi.params() or local_defs(fi, f.value.id)))):
        return None
    # remembered per repository model: the same caller file can stand next to different helper modules in another variant
    memo = _REPO.__dict__.setdefault("_c17_one_expr", {})
    key = (id(fi.node), norm(f))
    if key in memo:
        return memo[key]
    memo[key] = None
    try:
        tg = _REPO.resolve_call(fi, call)
        if not tg and isinstance(f, ast.Attribute) and f.value.id not in ("self", "cls"):
            r = _REPO.resolve_name(fi.module, f.value.id)           # <imported module>.function(...)
            if isinstance(r, tuple) and r[0] == "module" and r[1] is not None and f.attr in r[1].functions:
                tg = [r[1].functions[f.attr]]
    except Exception:  # noqa: BLE001
        return None
    if len(tg) != 1 or tg[0].is_async or tg[0].node is fi.node or isinstance(tg[0].node, ast.Lambda):
        return None
    hf = tg[0]
    if isinstance(f, ast.Attribute) and f.value.id not in ("self", "cls") and hf.cls is not None and not {"staticmethod", "classmethod"} & set(hf.decorator_names()):
        return None                               # Class.method(obj, ...): the receiver is an argument
    if any(d not in ("staticmethod", "classmethod") for d in hf.decorator_names()) or len(hf.decorator_names()) != len(hf.node.decorator_list):
        return None
    if isinstance(f, ast.Name) and (hf.cls is not None or hf.name == "__init__"):
        return None
    body = [x for x in hf.node.body if not (isinstance(x, ast.Expr) and isinstance(x.value, ast.Constant))]
    if _is_generator(hf.node):
        value = _generator_expression(body)
        if value is None:
            return None
        memo[key] = (hf, value)
        return memo[key]
    if len(body) != 1 or not isinstance(body[0], ast.Return) or body[0].value is None:
        return None
    memo[key] = (hf, body[0].value)
    return memo[key]


def _generator_expression(body: list) -> ast.AST | None:
    """
    The generator expression a tiny generator function amounts to: `for t in X: [if c:] yield E` is `(E for t in X [if c])`
    (nested for / if levels become further clauses), `yield from X` is `(x for x in X)`.  Both produce the same elements
    in the same order, lazily.  None for any other body.
    """
    if len(body) != 1:
        return None
    st = body[0]
    if isinstance(st, ast.Expr) and isinstance(st.value, ast.YieldFrom):
        v = ast.Name(id="_c17_y", ctx=ast.Load())
        return ast.GeneratorExp(elt=v, generators=[ast.comprehension(target=ast.Name(id="_c17_y", ctx=ast.Store()), iter=st.value.value, ifs=[], is_async=0)])
    gens: list = []
    while True:
        if isinstance(st, ast.For) and not st.orelse and len(st.body) == 1:
            gens.append(ast.comprehension(target=st.target, iter=st.iter, ifs=[], is_async=0))
            st = st.body[0]
        elif isinstance(st, ast.If) and not st.orelse and len(st.body) == 1 and gens:
            gens[-1].ifs.append(st.test)
            st = st.body[0]
        else:
            break
    if not gens or not (isinstance(st, ast.Expr) and isinstance(st.value, ast.Yield) and st.value.value is not None):
        return None
    if any(isinstance(n, (ast.Yield, ast.YieldFrom, ast.Await, ast.NamedExpr)) for g in gens for x in [g.iter, *g.ifs] for n in ast.walk(x)) \
            or any(isinstance(n, (ast.Yield, ast.YieldFrom, ast.Await, ast.NamedExpr)) for n in ast.walk(st.value.value)):
        return None
    return ast.GeneratorExp(elt=st.value.value, generators=gens)


def _pure_call_value(fi: FuncInfo, call: ast.AST) -> ast.AST | None:
    """
    What a call of a one-expression function evaluates to, told in the caller's terms: the returned expression with the
    parameters replaced by the arguments, constants of the function's own module by their values, names bound inside
    the expression renamed apart.  None when the callee is anything else, or mentions a global that means something else
    in the caller's module.
    """
    if _REPO is None or not isinstance(call, ast.Call) or _PURE_DEPTH[0] >= 3:
        return None
    got = _one_expression_target(fi, call)
    if got is None:
        return None
    hf, value = got
    fr = _Frame(fi, call, hf, "v_")
    if not fr.ok:
        return None
    _PURE_DEPTH[0] += 1
    try:
        out = fr.lift(value, ())
    finally:
        _PURE_DEPTH[0] -= 1
    for n in ast.walk(_expand(hf, value)):
        if isinstance(n, ast.Name) and n.id not in fr.locals and n.id not in fr.bind:
            if n.id in fi.params() or local_defs(fi, n.id) or not _same_global(hf.module, fi.module, n.id):
                return None                       # a global of the callee that the caller's scope spells differently
    return out


def _property_value(fi: FuncInfo, attr: str) -> ast.AST | None:
    """
    What `self.<attr>` evaluates to inside a method of fi's class when <attr> is a read-only @property that the reviewed
    tree does not have and that is nothing but `return <expression over self>`: that expression (a fresh copy).  None otherwise.
    """
    if _REPO is None or fi.cls is None or not fi.params() or fi.params()[0] != "self" or local_defs(fi, "self") or _PURE_DEPTH[0] >= 3:
        return None
    memo = _REPO.__dict__.setdefault("_c17_props", {})
    key = (id(fi.cls.node), attr)
    if key not in memo:
        memo[key] = None
        try:
            m = fi.cls.lookup(attr)
            if m is not None and m.decorator_names() == ["property"] and len(m.node.decorator_list) == 1 and not m.is_async and _is_new(m) and m.params() == ["self"] \
                    and not any(attr in k.methods and k.methods[attr] is not m for k in [*fi.cls.mro(), *fi.cls.all_subclasses()]) \
                    and sum(1 for x in m.cls.node.body if isinstance(x, (ast.FunctionDef, ast.AsyncFunctionDef)) and x.name == attr) == 1:
                body = [x for x in m.node.body if not (isinstance(x, ast.Expr) and isinstance(x.value, ast.Constant))]
                # (a bare attribute chain is a view / rename of stored state: the rules keep reading it under the property's name)
                if len(body) == 1 and isinstance(body[0], ast.Return) and body[0].value is not None and m.module is fi.module and not _plain_reference(strip_cast(body[0].value)) \
                        and not any(isinstance(x, (ast.Lambda, ast.Yield, ast.YieldFrom, ast.Await, ast.NamedExpr)) for x in ast.walk(body[0].value)) \
                        and not any(isinstance(x, ast.Attribute) and isinstance(x.value, ast.Name) and x.value.id == "self" and x.attr == attr for x in ast.walk(body[0].value)):
                    memo[key] = body[0].value
        except Exception:  # noqa: BLE001
            memo[key] = None
    v = memo[key]
    if v is None:
        return None
    # names bound inside the expression (comprehension variables) must not be captured by locals of fi: keep it simple, refuse
    inner = {x.id for x in ast.walk(v) if isinstance(x, ast.Name) and x.id != "self"}
    if any(x in fi.params() or local_defs(fi, x) for x in inner):
        return None
    return _copy(v)


def _expand(fi: FuncInfo, e: ast.AST | None, getsub: tuple[str, ...] = ()) -> ast.AST | None:
    """Copy of e in which casts are dropped and every soundly substitutable local is replaced by its definition."""
    if e is None:
        return None
    return _Expander(fi, getsub).visit(_copy(e))


def _x(fi: FuncInfo, e: ast.AST | None, getsub: tuple[str, ...] = ()) -> str:
    return norm(_expand(fi, e, getsub))


def _c(text: str) -> str:
    """Canonical text of an expression given as source."""
    return norm(ast.parse(text, mode="eval").body)


_REPO = None           # the repository model the rules are running on (set by _Paths / the rules; read by the expression helpers)


def _use(ctx: Ctx) -> None:
    global _REPO  # noqa: PLW0603
    _REPO = ctx.repo


def _literal(e: ast.AST | None) -> bool:
    """a constant, or a display / frozenset(...) / tuple(...) of constants"""
    if e is None:
        return False
    if const_value(e) is not NOCONST:
        return True
    if isinstance(e, (ast.List, ast.Tuple, ast.Set)):
        return all(const_value(x) is not NOCONST for x in e.elts)
    return isinstance(e, ast.Call) and chain(e.func) in ("frozenset", "set", "tuple", "list") and len(e.args) == 1 and not e.keywords \
        and isinstance(e.args[0], (ast.List, ast.Tuple, ast.Set)) and _literal(e.args[0])


def _module_literal(fi: FuncInfo, name: str) -> ast.AST | None:
    """the literal a module-level constant stands for (`_REQUIRED = ("name", "date", "schema")`), when `name` is not a local of fi"""
    if _REPO is None or name in fi.params() or local_defs(fi, name):
        return None
    try:
        r = _REPO.resolve_name(fi.module, name)
    except Exception:  # noqa: BLE001
        return None
    if isinstance(r, tuple) and r[0] == "const":
        own = next((k for k, x in r[1].constants.items() if x is r[2]), name)
        if not _written_once(r[1], own):
            return None                           # a rebound module global is not a constant
        if _literal(strip_cast(r[2])):
            return strip_cast(r[2])
        # a derived constant (5 * 60, len(OTHER), calcsize("...")) is the value it evaluates to
        return _value_ast(_fold_value(r[1], strip_cast(r[2])))
    return None


def _written_once(m, name: str) -> bool:
    """the module-level name is bound exactly once in its module and never declared global in a function"""
    memo = m.tree.__dict__.setdefault("_c17_once", {})
    if name not in memo:
        stores_ = [n for n in ast.walk(m.tree) if isinstance(n, ast.Name) and n.id == name and isinstance(n.ctx, (ast.Store, ast.Del))]
        glob = any(isinstance(n, ast.Global) and name in n.names for n in ast.walk(m.tree))
        memo[name] = len(stores_) == 1 and not glob
    return memo[name]


def _value_ast(v) -> ast.AST | None:
    """the literal that spells a folded value (numbers, text, bytes, None and flat tuples of those); None for anything else"""
    if v is None or isinstance(v, (bool, int, float, str, bytes)):
        return ast.Constant(value=v)
    if isinstance(v, tuple) and all(x is None or isinstance(x, (bool, int, float, str, bytes)) for x in v):
        return ast.Tuple(elts=[ast.Constant(value=x) for x in v], ctx=ast.Load())
    return None


_DIGEST_SIZES = {"md5": 16, "sha1": 20, "sha224": 28, "sha256": 32, "sha384": 48, "sha512": 64, "sha3_224": 28, "sha3_256": 32, "sha3_384": 48, "sha3_512": 64}


def _fold_value(m, e: ast.AST | None, depth: int = 0):  # noqa: C901, PLR0911, PLR0912
    """
    The value of an expression of module m that does not depend on the run: literals, module constants written once,
    Class.CONSTANT, arithmetic over those, len() of a constant, struct.calcsize / Struct(...).size of a constant format,
    the digest size of a hashlib algorithm, int() / float() / min / max / sum / abs / round of constants,
    timedelta(...).total_seconds().  NOCONST for everything else (nothing of the analysed code is run: only the
    arithmetic is redone here).
    """
    if e is None or depth > 12 or _REPO is None:
        return NOCONST
    e = strip_cast(e)
    v = const_value(e)
    if v is not NOCONST:
        return v

    def sub(x):
        return _fold_value(m, x, depth + 1)
    try:
        if isinstance(e, ast.Name):
            r = _REPO.resolve_name(m, e.id)
            if isinstance(r, tuple) and r[0] == "const":
                own = next((k for k, x in r[1].constants.items() if x is r[2]), None)
                if own is not None and _written_once(r[1], own):
                    return _fold_value(r[1], r[2], depth + 1)
            return NOCONST
        if isinstance(e, (ast.Tuple, ast.List)):
            vals = [sub(x) for x in e.elts]
            return NOCONST if any(x is NOCONST for x in vals) or any(isinstance(x, ast.Starred) for x in e.elts) else tuple(vals)
        if isinstance(e, ast.UnaryOp):
            x = sub(e.operand)
            if x is NOCONST:
                return NOCONST
            return -x if isinstance(e.op, ast.USub) else +x if isinstance(e.op, ast.UAdd) else (not x) if isinstance(e.op, ast.Not) else ~x
        if isinstance(e, ast.BinOp):
            l, r = sub(e.left), sub(e.right)
            if l is NOCONST or r is NOCONST:
                return NOCONST
            if isinstance(e.op, ast.Pow) and not (isinstance(r, int) and 0 <= r <= 64):
                return NOCONST
            if isinstance(e.op, (ast.Mult, ast.LShift)) and any(isinstance(x, (str, bytes, tuple)) for x in (l, r)) and max([x for x in (l, r) if isinstance(x, int)] or [0]) > 4096:
                return NOCONST
            ops = {ast.Add: lambda: l + r, ast.Sub: lambda: l - r, ast.Mult: lambda: l * r, ast.Pow: lambda: l ** r, ast.FloorDiv: lambda: l // r,
                   ast.Div: lambda: l / r, ast.Mod: lambda: l % r, ast.LShift: lambda: l << r if r < 256 else NOCONST, ast.RShift: lambda: l >> r,
                   ast.BitOr: lambda: l | r, ast.BitAnd: lambda: l & r, ast.BitXor: lambda: l ^ r}
            return ops[type(e.op)]() if type(e.op) in ops else NOCONST
        if isinstance(e, ast.Attribute):
            if e.attr in ("size", "digest_size") and isinstance(e.value, ast.Call):
                c = e.value
                f = (chain(c.func) or "").split(".")[-1]
                if e.attr == "size" and f == "Struct" and len(c.args) == 1 and not c.keywords and isinstance(sub(c.args[0]), (str, bytes)):
                    import struct
                    return struct.calcsize(sub(c.args[0]))
                if e.attr == "digest_size" and f in _DIGEST_SIZES and not c.keywords and len(c.args) <= 1:
                    return _DIGEST_SIZES[f]
                return NOCONST
            if e.attr == "size" and isinstance(e.value, ast.Name):
                r = _REPO.resolve_name(m, e.value.id)
                if isinstance(r, tuple) and r[0] == "const" and isinstance(strip_cast(r[2]), ast.Call):
                    own = next((k for k, x in r[1].constants.items() if x is r[2]), None)
                    return _fold_value(r[1], ast.Attribute(value=strip_cast(r[2]), attr="size", ctx=ast.Load()), depth + 1) if own and _written_once(r[1], own) else NOCONST
            cv = _REPO.resolve_const(m, e, None)
            return tuple(cv) if isinstance(cv, list) else cv
        if isinstance(e, ast.Call) and not any(isinstance(a, ast.Starred) for a in e.args):
            f = chain(e.func) or ""
            args = [sub(a) for a in e.args]
            if isinstance(e.func, ast.Attribute) and e.func.attr == "total_seconds" and not e.args and not e.keywords and isinstance(e.func.value, ast.Call) \
                    and (chain(e.func.value.func) or "").split(".")[-1] == "timedelta" and not e.func.value.args:
                import datetime
                kw = {k.arg: sub(k.value) for k in e.func.value.keywords}
                if None in kw or any(not isinstance(x, (int, float)) or isinstance(x, bool) for x in kw.values()):
                    return NOCONST
                return datetime.timedelta(**kw).total_seconds()
            if e.keywords or any(a is NOCONST for a in args):
                return NOCONST
            if f == "len" and len(args) == 1 and isinstance(args[0], (str, bytes, tuple)):
                return len(args[0])
            if f in ("calcsize", "struct.calcsize") and len(args) == 1 and isinstance(args[0], (str, bytes)):
                import struct
                return struct.calcsize(args[0])
            if f in ("int", "float", "abs", "round") and len(args) == 1 and isinstance(args[0], (int, float)):
                return {"int": int, "float": float, "abs": abs, "round": round}[f](args[0])
            if f in ("min", "max", "sum") and args and all(isinstance(a, (int, float)) for a in (args[0] if len(args) == 1 and isinstance(args[0], tuple) else args)):
                return {"min": min, "max": max, "sum": sum}[f](args[0] if len(args) == 1 and isinstance(args[0], tuple) else args)
    except Exception:  # noqa: BLE001
        return NOCONST
    return NOCONST


def _is_number(v, n) -> bool:
    return isinstance(v, (int, float)) and not isinstance(v, bool) and v == n


def _const_set(e: ast.AST):
    if isinstance(e, ast.Call) and chain(e.func) in ("frozenset", "set", "tuple", "list") and len(e.args) == 1 and not e.keywords:
        return _const_set(e.args[0])
    if isinstance(e, (ast.List, ast.Tuple, ast.Set)):
        vals = [const_value(x) for x in e.elts]
        if all(isinstance(v, (str, bytes, int)) for v in vals):
            return set(vals)
    return None


def _simple_callee_value(ctx: Ctx, fi: FuncInfo, call: ast.AST) -> ast.AST | None:
    """
    `self.helper(a, b)` where helper's body is a single `return <expr>` (after an optional docstring): <expr> with the
    parameters replaced by the arguments.  This is what the call evaluates to; None when the callee has any other shape.
    """
    if not isinstance(call, ast.Call) or call.keywords or any(isinstance(a, ast.Starred) for a in call.args):
        return None
    if not (isinstance(call.func, ast.Attribute) and isinstance(call.func.value, ast.Name) and call.func.value.id == "self"):
        return None
    tg = ctx.repo.resolve_call(fi, call)
    if len(tg) != 1 or tg[0].is_async:
        return None
    body = [s for s in tg[0].node.body if not (isinstance(s, ast.Expr) and isinstance(s.value, ast.Constant))]
    if len(body) != 1 or not isinstance(body[0], ast.Return) or body[0].value is None:
        return None
    params = tg[0].params()
    if not params or params[0] != "self" or len(params) - 1 != len(call.args):
        return None
    a = tg[0].node.args
    if a.vararg or a.kwarg or a.kwonlyargs:
        return None
    mapping = dict(zip(params[1:], call.args))
    val = _copy(body[0].value)
    bound: set[str] = set()
    for n in ast.walk(val):
        if isinstance(n, (ast.ListComp, ast.SetComp, ast.DictComp, ast.GeneratorExp)):
            bound |= _comp_bound(n)
    if bound & set(mapping):
        return None

    class Sub(ast.NodeTransformer):
        def visit_Name(self, n):  # noqa: N802
            return _copy(mapping[n.id]) if n.id in mapping and isinstance(n.ctx, ast.Load) else n
    return Sub().visit(val)


def _edge_dominated(cfg, site_ast: ast.AST, pred) -> bool:
    """Every path entry -> site uses an edge accepted by pred(u, v, label)."""
    ns = [n for n in cfg.nodes_for(site_ast) if cfg.reachable(n)]
    return bool(ns) and all(cfg.must_pass_edges(n, pred) for n in ns)


def _reaches(cfg, starts, site_ast: ast.AST) -> bool:
    r = cfg.reach(list(starts))
    return any(n in r for n in cfg.nodes_for(site_ast))


# ------------------------------------------------------------------------------------ symbolic constants, result objects
class _Sym:
    """
    An Enum member or a module-level `object()` sentinel: a value that is equal (and identical) only to itself - or, for
    Enum members, to an alias carrying the same value.  `mixed` members (IntEnum, StrEnum, Flag ...) also compare and
    test like their value.
    """
    __slots__ = ("mixed", "name", "owner", "value")

    def __init__(self, owner, name: str, value=NOCONST, mixed: bool = False) -> None:
        self.owner, self.name, self.value, self.mixed = owner, name, value, mixed

    def __eq__(self, o) -> bool:
        if isinstance(o, _Sym):
            return o.owner == self.owner and (o.name == self.name or (self.value is not NOCONST and o.value is not NOCONST
                                                                      and type(self.value) is type(o.value) and self.value == o.value))
        return bool(self.mixed and self.value == o)

    def __ne__(self, o) -> bool:
        return not self.__eq__(o)

    def __hash__(self) -> int:
        return hash((self.owner, self.name))

    def __bool__(self) -> bool:
        return bool(self.value) if self.mixed else True

    def __repr__(self) -> str:
        return f"<{self.owner}.{self.name}>"


_ENUM_BASES = {"Enum", "IntEnum", "StrEnum", "Flag", "IntFlag", "ReprEnum"}


def _bases(cls) -> set[str]:
    """last components of the base names of a class and of its repository ancestors (`enum.Enum` -> `Enum`)"""
    return {b.split(".")[-1].split("[")[0] for b in cls.all_base_names()}


def _enum_member(cls, name: str):
    """the _Sym of member `name` of an Enum class of the repository, else NOCONST"""
    bases = _bases(cls)
    if not bases & _ENUM_BASES or name.startswith("_"):
        return NOCONST
    expr = cls.lookup_attr(name)
    if expr is None or any(cls.lookup(m) is not None for m in ("__eq__", "__bool__", "__hash__", "_missing_", "__new__")):
        return NOCONST
    members = {k: v for c in cls.mro() for k, v in c.attrs.items() if not k.startswith("_")}
    autos = [k for k, v in members.items() if isinstance(v, ast.Call) and chain(v.func) in ("auto", "enum.auto") and not v.args]
    consts = {k: const_value(v) for k, v in members.items() if k not in autos}
    if any(v is NOCONST for v in consts.values()) or (autos and len(autos) != len(members)):
        return NOCONST                            # values that cannot be read (or auto() mixed with explicit ones): aliases cannot be excluded
    mixed = bool(bases & {"IntEnum", "StrEnum", "Flag", "IntFlag", "ReprEnum", "int", "str", "bytes", "float"})
    if autos:
        return NOCONST if mixed else _Sym(cls.name, name)
    return _Sym(cls.name, name, consts[name], mixed)


_FOREIGN_SYMS: dict = {}        # marker name -> _Sym of a module-level sentinel that a lifted expression of another module mentions


def _class_sentinel(cls, attr: str):
    """
    The _Sym of a class-level `NAME = object()` sentinel read as self.NAME / cls.NAME / Class.NAME: one class of the hierarchy
    binds it, once, in its body, and nothing in the repository assigns or deletes an attribute of that name.  Else NOCONST.
    """
    try:
        owners = [k for k in {id(k): k for k in [*cls.mro(), *cls.all_subclasses()]}.values() if attr in k.attrs or attr in k.methods]
        if len(owners) != 1 or attr in owners[0].methods:
            return NOCONST
        v = strip_cast(owners[0].attrs[attr])
        if not (isinstance(v, ast.Call) and chain(v.func) == "object" and not v.args and not v.keywords):
            return NOCONST
        binds = sum(1 for st in owners[0].node.body for n in ast.walk(st) if isinstance(n, ast.Name) and n.id == attr and isinstance(n.ctx, (ast.Store, ast.Del)))
        if binds != 1 or any(isinstance(a.ctx, (ast.Store, ast.Del)) for _m, _f, a in _REPO.attribute_uses(attr)):
            return NOCONST
        # (setattr with a computed name is not looked for: the engine's attribute index is what every rule relies on)
        return _Sym("object@" + owners[0].module.relpath + ":" + owners[0].name, attr)
    except Exception:  # noqa: BLE001
        return NOCONST


def _global_const(fi: FuncInfo, e: ast.AST | None):
    """
    The value of an expression that does not depend on the run: a literal, a module-level constant, Class.CONSTANT, an
    Enum member (as _Sym), a module-level `object()` sentinel (as _Sym).  NOCONST for everything else.
    """
    if e is None:
        return NOCONST
    e = strip_cast(e)
    cv = const_value(e)
    if cv is not NOCONST or _REPO is None:
        return cv
    try:
        if isinstance(e, ast.Name):
            if e.id in _FOREIGN_SYMS:
                return _FOREIGN_SYMS[e.id]
            if e.id in fi.params() or local_defs(fi, e.id):
                return NOCONST
            r = _REPO.resolve_name(fi.module, e.id)
            if not (isinstance(r, tuple) and r[0] == "const"):
                return NOCONST
            once = sum(1 for n in ast.walk(r[1].tree) if isinstance(n, ast.Name) and n.id == e.id and isinstance(n.ctx, (ast.Store, ast.Del))) == 1 \
                and not any(isinstance(n, ast.Global) and e.id in n.names for n in ast.walk(r[1].tree))
            if not once:
                return NOCONST
            v = strip_cast(r[2])
            if isinstance(v, ast.Call) and chain(v.func) == "object" and not v.args and not v.keywords:
                return _Sym("object@" + r[1].relpath, e.id)
            cv = _REPO.resolve_const(r[1], v)
            return tuple(cv) if isinstance(cv, list) else cv
        if isinstance(e, ast.Attribute):
            if isinstance(e.value, ast.Name) and e.value.id in ("self", "cls") and fi.cls is not None and fi.params() and fi.params()[0] == e.value.id \
                    and not local_defs(fi, e.value.id) and "staticmethod" not in fi.decorator_names():
                return _class_sentinel(fi.cls, e.attr)
            c = _REPO.resolve_class_expr(fi.module, e.value)
            if c is None:
                return NOCONST
            if _class_sentinel(c, e.attr) is not NOCONST:
                return _class_sentinel(c, e.attr)
            if _bases(c) & _ENUM_BASES:
                return _enum_member(c, e.attr)
            cv = _REPO.resolve_const(fi.module, e, None)
            return tuple(cv) if isinstance(cv, list) else cv
    except Exception:  # noqa: BLE001
        return NOCONST
    return NOCONST


def _ctor_layout(c):
    """
    ([(attribute, default expression | None)], positional, [constructor parameter]) of a class whose instances are nothing
    but their constructor arguments under attribute names: a NamedTuple / dataclass (annotated fields), or a class whose
    __init__ only stores its parameters (`self.a = a`) and whose other methods never store those attributes.  Else None.
    """
    memo = c.node.__dict__
    if "_c17_layout" in memo:
        return memo["_c17_layout"]
    memo["_c17_layout"] = None
    own_bases = [b.split(".")[-1].split("[")[0] for b in c.base_names]
    nt = "NamedTuple" in own_bases
    dc = any(chain(d.func if isinstance(d, ast.Call) else d) in ("dataclass", "dataclasses.dataclass") for d in c.node.decorator_list)
    if c.bases or c.lookup("__new__") is not None or c.lookup("__getattr__") is not None or c.lookup("__getattribute__") is not None or c.lookup("__setattr__") is not None:
        return None
    out = None
    if nt or dc:
        if c.lookup("__init__") is None and c.lookup("__post_init__") is None:
            flds = [(x.target.id, x.value) for x in c.node.body if isinstance(x, ast.AnnAssign) and isinstance(x.target, ast.Name) and "ClassVar" not in norm(x.annotation)]
            if not (dc and any(isinstance(d, ast.Call) and chain(d.func) in ("field", "dataclasses.field") for _n, d in flds)):
                out = (flds, nt, [n for n, _d in flds])
    elif "__init__" in c.methods and not [b for b in own_bases if b not in ("object", "Generic", "Protocol")]:
        init = c.methods["__init__"]
        a = init.node.args
        body = [x for x in init.node.body if not (isinstance(x, ast.Expr) and isinstance(x.value, ast.Constant))]
        params = [x.arg for x in [*a.posonlyargs, *a.args]][1:]
        defaults = dict(zip(reversed([x.arg for x in [*a.posonlyargs, *a.args]]), reversed(a.defaults)))
        stored: dict[str, str] = {}
        ok = not (a.vararg or a.kwarg or a.kwonlyargs) and bool(params)
        for st in body:
            tg = st.targets[0] if isinstance(st, ast.Assign) and len(st.targets) == 1 else st.target if isinstance(st, ast.AnnAssign) and st.value is not None else None
            v = strip_cast(st.value) if tg is not None else None
            if not (isinstance(tg, ast.Attribute) and isinstance(tg.value, ast.Name) and tg.value.id == "self" and isinstance(v, ast.Name) and v.id in params
                    and v.id not in stored and tg.attr not in stored.values()):
                ok = False
                break
            stored[v.id] = tg.attr
        if ok and len(stored) == len(params):
            attrs = set(stored.values())
            rebound = any(isinstance(n, ast.Attribute) and n.attr in attrs and isinstance(n.ctx, (ast.Store, ast.Del))
                          for k, meth in c.methods.items() if k != "__init__" for n in ast.walk(meth.node))
            if not rebound and not attrs & set(c.methods) and not attrs & set(c.attrs):
                out = ([(stored[q], defaults.get(q)) for q in params], False, params)
    memo["_c17_layout"] = out
    return out


def _record_fields(m, ctor: ast.AST):
    """
    ([(field name, default expression | None)], positional, [constructor parameter]) of the result-object class a
    constructor expression names: a NamedTuple / dataclass / plain parameter-holder class defined in the repository, or a
    collections.namedtuple; positional says that the object can also be indexed.  None for anything else.
    """
    if _REPO is None:
        return None
    try:
        c = _REPO.resolve_class_expr(m, ctor)
        if c is not None:
            return _ctor_layout(c)
        if isinstance(ctor, ast.Name):
            r = _REPO.resolve_name(m, ctor.id)
            if isinstance(r, tuple) and r[0] == "const":
                v = strip_cast(r[2])
                if isinstance(v, ast.Call) and chain(v.func) in ("namedtuple", "collections.namedtuple") and len(v.args) == 2 and not v.keywords:
                    f = v.args[1]
                    names = const_value(f) if not isinstance(f, ast.List) else [const_value(x) for x in f.elts]
                    if isinstance(names, str):
                        names = names.replace(",", " ").split()
                    if isinstance(names, (list, tuple)) and names and all(isinstance(x, str) for x in names):
                        return [(x, None) for x in names], True, list(names)
    except Exception:  # noqa: BLE001
        return None
    return None


def _field_expr(fi: FuncInfo, e: ast.AST | None, step: tuple) -> ast.AST | None:  # noqa: C901, PLR0911, PLR0912
    """
    The expression whose value is component `step` - ("attr", name) or ("idx", i) - of the value of e, when e shows its
    construction: a tuple / list display, a constructor call of a result-object class (NamedTuple / dataclass /
    namedtuple), an Enum member (.value / .name).  None when e does not show it.
    """
    if e is None:
        return None
    e = strip_cast(e)
    kind, key = step
    if isinstance(e, (ast.Tuple, ast.List)) and kind == "idx":
        if any(isinstance(x, ast.Starred) for x in e.elts) or not -len(e.elts) <= key < len(e.elts):
            return None
        return e.elts[key]
    if isinstance(e, ast.Attribute) and kind == "attr" and key in ("value", "name"):
        g = _global_const(fi, e)
        if isinstance(g, _Sym) and not str(g.owner).startswith("object@"):
            if key == "name":
                return ast.Constant(value=g.name)
            return ast.Constant(value=g.value) if g.value is not NOCONST else None
        return None
    if isinstance(e, ast.Call) and not any(isinstance(x, ast.Starred) for x in e.args) and all(k.arg is not None for k in e.keywords):
        rf = _record_fields(fi.module, e.func)
        if rf is None:
            return None
        flds, positional, params = rf
        names = [n for n, _d in flds]
        if kind == "idx":
            if not positional or not -len(names) <= key < len(names):
                return None
            key = names[key]
        if key not in names or len(e.args) > len(names) or any(k.arg not in params for k in e.keywords):
            return None
        i = names.index(key)
        if i < len(e.args):
            return e.args[i]
        for k in e.keywords:
            if k.arg == params[i]:
                return k.value
        d = flds[i][1]
        return d if d is not None and const_value(d) is not NOCONST else None
    return None


def _with_path(e: ast.AST, path) -> ast.AST:
    """the expression e.<path>"""
    for kind, key in path:
        e = ast.Attribute(value=e, attr=key, ctx=ast.Load()) if kind == "attr" else ast.Subscript(value=e, slice=ast.Constant(value=key), ctx=ast.Load())
    return e


def _step_of(e: ast.AST):
    """the component an attribute access / constant subscript selects, else None"""
    if isinstance(e, ast.Attribute):
        return ("attr", e.attr)
    if isinstance(e, ast.Subscript):
        i = const_value(e.slice)
        if isinstance(i, int) and not isinstance(i, bool):
            return ("idx", i)
    return None


# ------------------------------------------------------------------------------------ feasible paths, followed calls
def _pair_of(f: Fact):
    """(atom, outcome) such that fact_of(atom, outcome) is f."""
    return f.atom, f.pos == fact_of(f.atom, True).pos


def _subject(atom: ast.AST, pol: bool, gc=const_value):
    """
    (expression under test, sat, truthiness, key): the edge `atom is pol` says that the value v of the expression
    satisfies sat(v).  truthiness is the truth value of the expression itself when the atom is a plain truthiness test,
    else None.  key identifies the test (for caches).  gc(expr) reads the constants the test compares with (literals;
    with _global_const also Enum members, sentinels and module constants).
    """
    if isinstance(atom, ast.Compare) and len(atom.ops) == 1 and isinstance(atom.ops[0], (ast.Is, ast.IsNot, ast.Eq, ast.NotEq)):
        l, op, r = atom.left, atom.ops[0], atom.comparators[0]
        if gc(l) is not NOCONST and gc(r) is NOCONST:
            l, r = r, l
        c = gc(r)
        if c is not NOCONST and gc(l) is NOCONST:
            want = pol != isinstance(op, (ast.IsNot, ast.NotEq))
            if isinstance(op, (ast.Is, ast.IsNot)):
                if isinstance(c, _Sym):
                    return l, (lambda v, c=c, want=want: (isinstance(v, _Sym) and v == c) == want), None, ("is", repr(c), want)
                if not (c is None or isinstance(c, bool)):
                    return l, (lambda v: True), None, ("?",)          # identity with other constants is not decided here
                return l, (lambda v, c=c, want=want: (v is c) == want), None, ("is", repr(c), want)
            return l, (lambda v, c=c, want=want: bool(v == c) == want), None, ("eq", repr(c), want)
    if isinstance(atom, ast.Compare) and len(atom.ops) == 1 and isinstance(atom.ops[0], (ast.In, ast.NotIn)) and gc is not const_value:
        l, op, r = atom.left, atom.ops[0], strip_cast(atom.comparators[0])
        if isinstance(r, ast.Call) and chain(r.func) in ("frozenset", "set", "tuple", "list") and len(r.args) == 1 and not r.keywords:
            r = strip_cast(r.args[0])
        cs = [gc(x) for x in r.elts] if isinstance(r, (ast.Tuple, ast.List, ast.Set)) else gc(r)
        if isinstance(cs, (list, tuple)) and all(x is not NOCONST for x in cs) and gc(l) is NOCONST:
            want = pol != isinstance(op, ast.NotIn)
            return l, (lambda v, cs=tuple(cs), want=want: any(bool(v == x) for x in cs) == want), None, ("in", repr(cs), want)
    return atom, (lambda v, pol=pol: bool(v) == pol), pol, ("truthy", pol)


def _is_generator(fn: ast.AST) -> bool:
    return any(isinstance(n, (ast.Yield, ast.YieldFrom)) for n in walk_no_nested(fn))


class _Frame:
    """
    One followed call `caller: ... self.helper(args) ...`: binds the helper's parameters to the caller's argument
    expressions.  lift(e) rewrites an expression of the helper into the caller's name space: single-assignment locals
    are replaced by their definitions, never-rebound parameters by the arguments, every other local by a fresh name
    (so that it can never be confused with a local of the caller).  ok is False when the binding cannot be decided.
    """

    def __init__(self, caller: FuncInfo, call: ast.Call, hf: FuncInfo, tag: str, getsub: tuple[str, ...] = (), self_expr: ast.AST | None = None) -> None:
        self.caller, self.call, self.hf, self.tag, self.getsub = caller, call, hf, tag, getsub
        self.self_expr = self_expr                # the constructor call of the parameter-holder object the method is called on
        self.bind: dict[str, ast.AST] = {}
        self.star: str | None = None              # *args parameter bound to the remaining positional arguments
        self.kw: dict[str, ast.AST] = {}
        self.kwname: str | None = None
        self.star_args: list = []
        self.ok = self._bind()
        self.locals: set[str] = set()
        for n in ast.walk(hf.node):
            if isinstance(n, ast.Name) and isinstance(n.ctx, (ast.Store, ast.Del)):
                self.locals.add(n.id)
            elif isinstance(n, ast.ExceptHandler) and n.name:
                self.locals.add(n.name)
            elif isinstance(n, ast.Lambda):
                self.locals |= {a.arg for a in [*n.args.posonlyargs, *n.args.args, *n.args.kwonlyargs]}
        self.locals |= {p for p in hf.params() if p not in self.bind}       # *args / **kwargs that could not be bound

    def _bind(self) -> bool:  # noqa: C901, PLR0911, PLR0912
        a, call = self.hf.node.args, self.call
        names = [x.arg for x in [*a.posonlyargs, *a.args]]
        if any(k.arg is None for k in call.keywords):
            return False
        implicit = self.hf.cls is not None and "staticmethod" not in self.hf.decorator_names()
        if implicit:
            if not names or (self.self_expr is None and not isinstance(call.func, ast.Attribute)):
                return False
            self.bind[names[0]] = self.self_expr if self.self_expr is not None else call.func.value
            names = names[1:]
        fixed = call.args[:len(names)]
        if any(isinstance(x, ast.Starred) for x in fixed):
            return False
        for n, v in zip(names, fixed):
            self.bind[n] = v
        if len(call.args) > len(names):
            if a.vararg is None:
                return False
            self.star, self.star_args = a.vararg.arg, list(call.args[len(names):])
            if len(self.star_args) == 1 and isinstance(self.star_args[0], ast.Starred):
                self.bind[self.star] = self.star_args[0].value           # f(*xs): the parameter holds the elements of xs
            elif not any(isinstance(x, ast.Starred) for x in self.star_args):
                self.bind[self.star] = ast.Tuple(elts=list(self.star_args), ctx=ast.Load())
        elif a.vararg is not None:
            self.star = a.vararg.arg
            self.bind[self.star] = ast.Tuple(elts=[], ctx=ast.Load())
        kwonly = [x.arg for x in a.kwonlyargs]
        for k in call.keywords:
            if k.arg in self.bind:
                return False
            if k.arg not in [*names, *kwonly]:
                if a.kwarg is None:
                    return False
                self.kw[k.arg] = k.value          # collected by **kwargs: read back as kwargs["name"]
                continue
            self.bind[k.arg] = k.value
        self.kwname = a.kwarg.arg if a.kwarg is not None else None
        defaults = dict(zip(reversed([x.arg for x in [*a.posonlyargs, *a.args]]), reversed(a.defaults)))
        defaults.update({x.arg: d for x, d in zip(a.kwonlyargs, a.kw_defaults) if d is not None})
        for n in [*names, *kwonly]:
            if n not in self.bind:
                if n not in defaults or const_value(defaults[n]) is NOCONST:
                    return False
                self.bind[n] = defaults[n]
        return True

    def lift(self, e: ast.AST | None, getsub: tuple | None = None) -> ast.AST | None:
        if e is None:
            return None
        e = _expand(self.hf, e, self.getsub if getsub is None else getsub)
        fr = self

        class Sub(ast.NodeTransformer):
            def visit_Name(self, n):  # noqa: N802
                if n.id in fr.locals:
                    return ast.Name(id=fr.tag + n.id, ctx=n.ctx)
                if n.id in fr.bind and isinstance(n.ctx, ast.Load):
                    return clone(fr.bind[n.id])
                if fr.hf.module is not fr.caller.module and isinstance(n.ctx, ast.Load):
                    # a sentinel object of the helper's own module keeps its identity under a name that cannot clash in the caller's module
                    g = _global_const(fr.hf, n)
                    if isinstance(g, _Sym) and str(g.owner).startswith("object@"):
                        mark = "_c17_sentinel_" + "".join(ch if ch.isalnum() else "_" for ch in f"{g.owner}_{g.name}")
                        _FOREIGN_SYMS[mark] = g
                        return ast.Name(id=mark, ctx=ast.Load())
                return n

            def visit_Attribute(self, n):  # noqa: N802
                n = self.generic_visit(n)
                # <parameter holder>(a, b).x is the constructor argument stored as x
                if fr.self_expr is not None and isinstance(n.ctx, ast.Load) and isinstance(n.value, ast.Call):
                    fe = _field_expr(fr.caller, n.value, ("attr", n.attr))
                    if fe is not None:
                        return clone(fe)
                return n

            def visit_Subscript(self, n):  # noqa: N802
                # kwargs["name"] of a never-rebound **kwargs parameter is the keyword argument of that name
                if isinstance(n.value, ast.Name) and n.value.id == fr.kwname and isinstance(n.ctx, ast.Load) and const_value(n.slice) in fr.kw \
                        and not _match_local_defs(fr.hf, fr.kwname):
                    return clone(fr.kw[const_value(n.slice)])
                return self.generic_visit(n)
        return Sub().visit(e)


def _loop_literal(ctx: Ctx, fi: FuncInfo, it: ast.AST) -> list | None:
    """the elements of a loop's iterable when it is a short literal sequence of plain names / attributes / constants (a table of callables or keys)"""
    rows = _loop_rows(ctx, fi, it, 0)
    return [r[0] for r in rows[0]] if rows is not None and not any(isinstance(r[0], ast.Lambda) for r in rows[0]) else None


def _plain_entry(x: ast.AST) -> bool:
    return isinstance(x, (ast.Name, ast.Constant)) or (isinstance(x, ast.Attribute) and _plain_entry(x.value))


def _lambda_free_names(lam: ast.Lambda) -> set[str] | None:
    """
    The names a lambda reads from the enclosing scope when it is called, None when it is not a plain expression of its
    positional parameters (defaults are bound early; * / ** parameters, walrus, yield and await are not followed).
    """
    a = lam.args
    if a.defaults or a.kw_defaults or a.kwonlyargs or a.vararg or a.kwarg or a.posonlyargs:
        return None
    bound = {x.arg for x in a.args}
    for n in ast.walk(lam.body):
        if isinstance(n, (ast.NamedExpr, ast.Yield, ast.YieldFrom, ast.Await)):
            return None
        if isinstance(n, (ast.ListComp, ast.SetComp, ast.DictComp, ast.GeneratorExp)):
            bound |= _comp_bound(n)
        elif isinstance(n, ast.Lambda):
            bound |= {x.arg for x in [*n.args.posonlyargs, *n.args.args, *n.args.kwonlyargs]}
            if n.args.vararg or n.args.kwarg:
                return None
    return {n.id for n in ast.walk(lam.body) if isinstance(n, ast.Name) and n.id not in bound}


def _loop_rows(ctx: Ctx, fi: FuncInfo, it: ast.AST, width: int):
    """
    (rows, from_class) of a loop's iterable when it is a short literal table: width 0 - `for x in (a, b, c)`, one component
    per row; width n - `for x, y in ((a1, b1), (a2, b2))`, rows of exactly n components; width -1 - rows of one common width,
    whatever it is.  The table may be wrapped in tuple() / list() / iter() or be a projection `[row[0] for row in T]` /
    `[(b, a) for a, b in T]` of a literal table (the chosen components of every row, in order).  A component is a plain name /
    attribute chain / constant, or a lambda of plain positional parameters (a lazy predicate / action: building the
    table evaluates nothing of it).  from_class: the table is a never-rebound class attribute (its lambdas read their
    free names in the module's scope).  None for anything else.
    """
    via, cur = [], strip_cast(it)
    while isinstance(cur, ast.Name) and len(via) < 4 and single_def(fi, cur.id) is not None and single_def(fi, cur.id)[1] is None:
        via.append(cur.id)
        cur = strip_cast(single_def(fi, cur.id)[0])
    it = resolve(fi, it)
    if isinstance(it, (ast.List, ast.ListComp)) and not all(_only_read(fi, nm) for nm in via):
        return None                                 # a list that is changed in place / handed out after it was built
    from_class = False
    while isinstance(it, ast.Call) and chain(it.func) in ("tuple", "list", "iter") and len(it.args) == 1 and not it.keywords and not isinstance(it.args[0], ast.Starred) \
            and not local_defs(fi, chain(it.func)) and chain(it.func) not in fi.params():
        it = resolve(fi, it.args[0])               # the same elements in the same order
    if isinstance(it, (ast.ListComp, ast.GeneratorExp)) and len(it.generators) == 1 and not it.generators[0].ifs and not it.generators[0].is_async:
        # a projection of a literal table: [row[0] for row in T] / [(h, r) for r, h in T] - the chosen components of every row, in order
        g = it.generators[0]
        if isinstance(g.target, ast.Name):
            inner = _loop_rows(ctx, fi, g.iter, -1)
            env_of = (lambda r, g=g: {(g.target.id, k): c for k, c in enumerate(r)})
        elif isinstance(g.target, (ast.Tuple, ast.List)) and g.target.elts and all(isinstance(t, ast.Name) for t in g.target.elts) and len({t.id for t in g.target.elts}) == len(g.target.elts):
            inner = _loop_rows(ctx, fi, g.iter, len(g.target.elts))
            env_of = (lambda r, g=g: {(t.id, None): c for t, c in zip(g.target.elts, r)})
        else:
            return None
        if inner is None:
            return None

        def pick(e: ast.AST, env: dict):
            if isinstance(e, ast.Name) and (e.id, None) in env:
                return env[(e.id, None)]
            if isinstance(e, ast.Subscript) and isinstance(e.value, ast.Name) and isinstance(const_value(e.slice), int) and not isinstance(const_value(e.slice), bool) \
                    and (e.value.id, const_value(e.slice)) in env:
                return env[(e.value.id, const_value(e.slice))]
            return None
        rows = []
        for r in inner[0]:
            env = env_of(r)
            want = list(it.elt.elts) if isinstance(it.elt, (ast.Tuple, ast.List)) and width != 0 else [it.elt]
            comps = [pick(e, env) for e in want]
            if any(c is None for c in comps) or (width > 0 and len(comps) != width) or (width == -1 and rows and len(comps) != len(rows[0])):
                return None
            rows.append(comps)
        return rows, inner[1]
    if isinstance(it, ast.Attribute) and isinstance(it.value, ast.Name) and it.value.id in ("self", "cls") and fi.cls is not None:
        written = any(isinstance(a.ctx, (ast.Store, ast.Del)) for m, f2, a in ctx.repo.attribute_uses(it.attr) if isinstance(a.value, ast.Name) and a.value.id in ("self", "cls"))
        it = fi.cls.lookup_attr(it.attr) if not written else None
        from_class = True
    if not isinstance(it, (ast.Tuple, ast.List)) or not 1 <= len(it.elts) <= 8:
        return None
    rows = []
    for e in it.elts:
        comps = [e] if width == 0 else list(e.elts) if isinstance(e, (ast.Tuple, ast.List)) else None
        if comps is None or (width >= 0 and len(comps) != max(width, 1)) or (width == -1 and (not comps or (rows and len(comps) != len(rows[0])))):
            return None
        for x in comps:
            if isinstance(x, ast.Lambda):
                free = _lambda_free_names(x)
                if free is None:
                    return None
                if from_class and any(n in fi.params() or local_defs(fi, n) for n in free):
                    return None                     # a name of the module's scope that a local of fi would capture
            elif not _plain_entry(x):
                return None
        rows.append(comps)
    return rows, from_class


def _beta(lam: ast.Lambda, args: list) -> ast.AST | None:
    """
    The body of `lam` with its parameters replaced by the (plain: name / attribute chain / constant) arguments of a direct
    call: what `(lambda p, q: BODY)(a, b)` evaluates when the call is made - free names are read at call time (late
    binding), so BODY at the call site reads the same values.  None when an argument would be captured by a
    comprehension / inner lambda of BODY or is not plain.
    """
    params = [x.arg for x in lam.args.args]
    if len(params) != len(args) or not all(_plain_entry(a) for a in args):
        return None
    inner: set[str] = set()
    for n in ast.walk(lam.body):
        if isinstance(n, (ast.ListComp, ast.SetComp, ast.DictComp, ast.GeneratorExp)):
            inner |= _comp_bound(n)
        elif isinstance(n, ast.Lambda):
            inner |= {x.arg for x in [*n.args.posonlyargs, *n.args.args, *n.args.kwonlyargs]}
    if inner & (set(params) | {n.id for a in args for n in ast.walk(a) if isinstance(n, ast.Name)}):
        return None
    env = dict(zip(params, args))

    class Bind(ast.NodeTransformer):
        def visit_Name(self, x):  # noqa: N802
            return clone(env[x.id]) if x.id in env and isinstance(x.ctx, ast.Load) else x
    return Bind().visit(clone(lam.body))


def _unrolled(ctx: Ctx, fi: FuncInfo) -> FuncInfo:
    """
    fi with every `for x in (a, b, c): BODY` over a literal table replaced by BODY[x:=a]; BODY[x:=b]; BODY[x:=c] (only
    when BODY neither breaks / continues the loop nor assigns x, and there is no else clause): the same statements are
    executed in the same order, and each copy of the body names the table entry it works on.  Rows may be tuples
    unpacked by the loop (`for holds, reason in ((lambda: ..., "text"), ...)`); a component that is a lambda is only
    unrolled when BODY does nothing with it but call it directly, and each such call is replaced by the lambda's body
    with the parameters bound (the lambda reads its free names when it is called, i.e. at that very place).
    """
    memo = fi.node.__dict__
    if "_c17_unrolled" in memo:
        return memo["_c17_unrolled"]
    memo["_c17_unrolled"] = fi
    if isinstance(fi.node, ast.Lambda):
        return fi
    out = _loops_unrolled(ctx, _tables_folded(ctx, fi))
    out.node.__dict__["_c17_unrolled"] = out
    memo["_c17_unrolled"] = out
    return out


def _row_env(fi: FuncInfo, names: list, rows: list, body: list) -> bool:
    """
    The loop / comprehension variables `names` can be replaced in `body` (statements or expressions) by the components of
    each row: body never rebinds them; a column of lambdas holds a lambda in every row, none of them mentions a loop
    variable, and body does nothing with such a variable but call it directly with plain arguments; every other component
    is a constant or a name that is bound at most once in fi (its value at the use is its value in the table).
    """
    for st in body:
        for n in ast.walk(st):
            if isinstance(n, ast.Name) and n.id in names and isinstance(n.ctx, (ast.Store, ast.Del)):
                return False
            if isinstance(n, (ast.ListComp, ast.SetComp, ast.DictComp, ast.GeneratorExp)) and _comp_bound(n) & set(names):
                return False
            if isinstance(n, ast.Lambda) and {a.arg for a in [*n.args.posonlyargs, *n.args.args, *n.args.kwonlyargs]} & set(names):
                return False
    lazy = {names[i] for r in rows for i, x in enumerate(r) if isinstance(x, ast.Lambda)}
    if not lazy:
        return True
    if not all(isinstance(r[i], ast.Lambda) for r in rows for i, nm in enumerate(names) if nm in lazy):
        return False
    if any(isinstance(n, ast.Name) and n.id in names for r in rows for x in r if isinstance(x, ast.Lambda) for n in ast.walk(x)):
        return False
    if not all(len(local_defs(fi, n.id)) <= 1 for r in rows for x in r if not isinstance(x, ast.Lambda) for n in ast.walk(x) if isinstance(n, ast.Name)):
        return False
    for st in body:
        for n in ast.walk(st):
            if isinstance(n, ast.Name) and n.id in lazy and isinstance(n.ctx, ast.Load):
                c = parent(n)
                if not (isinstance(c, ast.Call) and c.func is n and not c.keywords and all(_plain_entry(a) for a in c.args)
                        and all(_beta(r[names.index(n.id)], list(c.args)) is not None for r in rows)):
                    return False
    return True


def _row_subst(names: list, row: list, node: ast.AST) -> ast.AST:
    """a copy of node with the variables `names` replaced by the components of `row` (direct calls of a lambda component by its body)"""
    env = dict(zip(names, row))

    class Sub(ast.NodeTransformer):
        def visit_Name(self, x):  # noqa: N802
            return clone(env[x.id]) if x.id in env and isinstance(x.ctx, ast.Load) else x

        def visit_Call(self, x):  # noqa: N802
            if isinstance(x.func, ast.Name) and isinstance(env.get(x.func.id), ast.Lambda):
                red = _beta(env[x.func.id], [self.visit(a) for a in x.args])
                if red is not None:
                    return red
            return self.generic_visit(x)
    return Sub().visit(clone(node))


def _in_test_position(n: ast.AST) -> bool:
    """only the truth value of expression n is used"""
    p = parent(n)
    if isinstance(p, (ast.If, ast.While, ast.IfExp, ast.Assert)):
        return p.test is n
    if isinstance(p, ast.UnaryOp) and isinstance(p.op, ast.Not):
        return True
    if isinstance(p, ast.BoolOp):
        return _in_test_position(p)
    if isinstance(p, ast.comprehension):
        return n in p.ifs
    return False


def _tables_folded(ctx: Ctx, fi: FuncInfo) -> FuncInfo:  # noqa: C901, PLR0912, PLR0915
    """
    fi with scans of a literal table of rows written out row by row (the same evaluations in the same order):
      for row in T: ... row[0] ... row[1] ...     ->  for row_0, row_1 in T: ... row_0 ... row_1 ...   (then unrolled)
      any(E for x, y in T if C)                   ->  (C1 and E1) or (C2 and E2) ...      where only the truth value is used,
                                                      True if (C1 and E1) else True if ... else False      elsewhere
      all(E for x, y in T if C)                   ->  not ((C1 and not E1) or ...)  /  False if (C1 and not E1) else ... else True
      next((E for x, y in T if C), D)             ->  E1 if C1 else E2 if C2 else ... D
    under the conditions of _loop_rows / _row_env.
    """
    def shadowed(name: str) -> bool:
        return name in fi.params() or bool(local_defs(fi, name)) or name in fi.module.imports
    cands = []
    for n in walk_no_nested(fi.node):
        if isinstance(n, ast.Call) and isinstance(n.func, ast.Name) and n.func.id in ("any", "all", "next") and not n.keywords and not shadowed(n.func.id) \
                and len(n.args) == (1 if n.func.id != "next" else 2) and isinstance(n.args[0], (ast.GeneratorExp, ast.ListComp)) and len(n.args[0].generators) == 1 \
                and not n.args[0].generators[0].is_async and not (n.func.id == "next" and isinstance(n.args[0], ast.ListComp)):
            cands.append(n)
        elif isinstance(n, ast.For) and isinstance(n.target, ast.Name):
            cands.append(n)
    if not cands:
        return fi
    new = clone(fi.node)
    set_parents(new)
    nf = FuncInfo(fi.name, fi.qualname, new, fi.module, fi.cls)
    changed = False

    def indexed(target: ast.AST, it: ast.AST, scope: list) -> tuple | None:
        """(width) when the single variable `target` ranges over literal rows of one width and scope only reads target[<constant position>]"""
        if not isinstance(target, ast.Name):
            return None
        t = resolve(nf, it)
        if not isinstance(t, (ast.Tuple, ast.List)) or not t.elts or not all(isinstance(e, (ast.Tuple, ast.List)) for e in t.elts):
            return None
        w = len(t.elts[0].elts)
        if w == 0 or any(len(e.elts) != w or any(isinstance(x, ast.Starred) for x in e.elts) for e in t.elts):
            return None
        uses = [x for st in scope for x in ast.walk(st) if isinstance(x, ast.Name) and x.id == target.id]
        for x in uses:
            p = parent(x)
            k = const_value(p.slice) if isinstance(p, ast.Subscript) and p.value is x and isinstance(p.ctx, ast.Load) and isinstance(x.ctx, ast.Load) else None
            if not isinstance(k, int) or isinstance(k, bool) or not 0 <= k < w:
                return None
        return w, uses

    def split(target: ast.Name, w: int, uses: list, holder, field: str) -> None:
        """row -> row_0, row_1 (fresh names), row[k] -> row_k"""
        fresh = [f"{target.id}_c17col{k}" for k in range(w)]
        for x in uses:
            p = parent(x)
            repl = ast.Name(id=fresh[const_value(p.slice)], ctx=ast.Load())
            ast.copy_location(repl, p)
            pp = parent(p)
            for f, v in ast.iter_fields(pp):
                if v is p:
                    setattr(pp, f, repl)
                elif isinstance(v, list) and any(y is p for y in v):
                    v[:] = [repl if y is p else y for y in v]
        tup = ast.Tuple(elts=[ast.Name(id=f, ctx=ast.Store()) for f in fresh], ctx=ast.Store())
        ast.copy_location(tup, target)
        setattr(holder, field, tup)

    # 1. single variables that are only indexed become unpacked rows
    for n in list(walk_no_nested(new)):
        if isinstance(n, ast.For) and isinstance(n.target, ast.Name) and not n.orelse:
            name = n.target.id
            inside = {id(x) for st in n.body for x in ast.walk(st)}
            if len(local_defs(nf, name)) != 1 or name in nf.params() or \
                    any(isinstance(x, ast.Name) and x.id == name and id(x) not in inside and x is not n.target for x in ast.walk(new)):
                continue
            ix = indexed(n.target, n.iter, n.body)
            if ix is not None:
                split(n.target, ix[0], ix[1], n, "target")
                changed = True
        elif isinstance(n, ast.Call) and isinstance(n.func, ast.Name) and n.func.id in ("any", "all", "next") and n.args and isinstance(n.args[0], (ast.GeneratorExp, ast.ListComp)) \
                and len(n.args[0].generators) == 1:
            g = n.args[0].generators[0]
            ix = indexed(g.target, g.iter, [n.args[0].elt, *g.ifs])
            if ix is not None:
                split(g.target, ix[0], ix[1], g, "target")
                changed = True
    if changed:
        set_parents(new)
        new.__dict__.pop("_c17_local_defs", None)
        nf = FuncInfo(fi.name, fi.qualname, new, fi.module, fi.cls)
    # 2. quantifiers / first-match over a literal table
    repl = {}
    stmt_repl = {}

    def at(node: ast.AST, where: ast.AST) -> ast.AST:
        # a written-out row sits where the row's own text is (distinct positions for distinct decisions)
        return ast.copy_location(node, where) if hasattr(where, "lineno") else node
    for n in walk_no_nested(new):
        if not (isinstance(n, ast.Call) and isinstance(n.func, ast.Name) and n.func.id in ("any", "all", "next") and not n.keywords and not shadowed(n.func.id)
                and len(n.args) == (1 if n.func.id != "next" else 2) and isinstance(n.args[0], (ast.GeneratorExp, ast.ListComp)) and len(n.args[0].generators) == 1):
            continue
        comp, g = n.args[0], n.args[0].generators[0]
        if g.is_async or (n.func.id == "next" and (isinstance(comp, ast.ListComp) or not _plain_entry(n.args[1]))):
            continue
        if isinstance(g.target, ast.Name):
            names, width = [g.target.id], 0
        elif isinstance(g.target, (ast.Tuple, ast.List)) and g.target.elts and all(isinstance(t, ast.Name) for t in g.target.elts) and len({t.id for t in g.target.elts}) == len(g.target.elts):
            names, width = [t.id for t in g.target.elts], len(g.target.elts)
        else:
            continue
        found = _loop_rows(ctx, nf, g.iter, width)
        if found is None or not _row_env(nf, names, found[0], [comp.elt, *g.ifs]):
            continue
        if found[1] and any(isinstance(x, ast.Name) for r in found[0] for c in r if not isinstance(c, ast.Lambda) for x in ast.walk(c)):
            continue                              # a name of the class body cannot be spelled inside the method
        kind, test = n.func.id, _in_test_position(n)
        terms = []
        for r in found[0]:
            conds = [_row_subst(names, r, c) for c in g.ifs]
            elt = _row_subst(names, r, comp.elt)
            terms.append((conds, elt))

        def negated(e: ast.AST) -> ast.AST:
            # only the truth value of the result is used: not (not x) is x there
            return e.operand if isinstance(e, ast.UnaryOp) and isinstance(e.op, ast.Not) else at(ast.UnaryOp(op=ast.Not(), operand=e), e)

        def conj(vals: list) -> ast.AST:
            return vals[0] if len(vals) == 1 else at(ast.BoolOp(op=ast.And(), values=vals), vals[0])
        holder = parent(n)
        if kind == "next" and all(conds for conds, _e in terms) and getattr(holder, "value", None) is n and \
                ((isinstance(holder, ast.Assign) and len(holder.targets) == 1 and isinstance(holder.targets[0], ast.Name)) or isinstance(holder, ast.Return)):
            # x = next(...) / return next(...): the same selection as a cascade of statements (one assignment / return per row)
            def leaf(v: ast.AST, where: ast.AST, holder=holder) -> ast.stmt:
                st = ast.Return(value=v) if isinstance(holder, ast.Return) else ast.Assign(targets=[ast.Name(id=holder.targets[0].id, ctx=ast.Store())], value=v)
                return at(st, where)
            tail = [leaf(clone(n.args[1]), n)]
            for conds, elt in reversed(terms):
                tail = [at(ast.If(test=conj(conds), body=[leaf(elt, conds[0])], orelse=tail), conds[0])]
            stmt_repl[id(holder)] = tail
            continue
        if kind in ("any", "all") and not test and getattr(holder, "value", None) is n and \
                ((isinstance(holder, ast.Assign) and len(holder.targets) == 1 and isinstance(holder.targets[0], ast.Name)) or isinstance(holder, ast.Return)):
            # x = any(...) / return all(...): True / False chosen by a cascade of statements, one test per row
            def leaf2(v: bool, where: ast.AST, holder=holder) -> ast.stmt:
                c = ast.Constant(value=v)
                st = ast.Return(value=c) if isinstance(holder, ast.Return) else ast.Assign(targets=[ast.Name(id=holder.targets[0].id, ctx=ast.Store())], value=c)
                return at(st, where)
            tail = [leaf2(kind == "all", n)]
            for conds, elt in reversed(terms):
                hit = conj([*conds, elt if kind == "any" else negated(elt)])
                tail = [at(ast.If(test=hit, body=[leaf2(kind == "any", hit)], orelse=tail), hit)]
            stmt_repl[id(holder)] = tail
            continue
        if kind == "next":
            out = clone(n.args[1])
            for conds, elt in reversed(terms):
                out = at(ast.IfExp(test=conj(conds), body=elt, orelse=out), conds[0]) if conds else elt
        else:
            hits = [conj([*conds, elt if kind == "any" else negated(elt)]) for conds, elt in terms]
            if test:
                out = hits[0] if len(hits) == 1 else ast.BoolOp(op=ast.Or(), values=hits)
                if kind == "all":
                    out = ast.UnaryOp(op=ast.Not(), operand=out)
            else:
                out = ast.Constant(value=kind == "all")
                for h in reversed(hits):
                    out = at(ast.IfExp(test=h, body=ast.Constant(value=kind == "any"), orelse=out), h)
        repl[id(n)] = ast.copy_location(out, n)
    if repl or stmt_repl:
        changed = True

        class Put(ast.NodeTransformer):
            def visit_Call(self, x):  # noqa: N802
                return repl[id(x)] if id(x) in repl else self.generic_visit(x)

            def visit_Assign(self, x):  # noqa: N802
                return stmt_repl[id(x)] if id(x) in stmt_repl else self.generic_visit(x)
            visit_Return = visit_Assign

            def visit_FunctionDef(self, x):  # noqa: N802
                return x if x is not new else self.generic_visit(x)
            visit_AsyncFunctionDef = visit_Lambda = visit_ClassDef = visit_FunctionDef
        Put().visit(new)
    if not changed:
        return fi
    ast.fix_missing_locations(new)
    set_parents(new)
    new.__dict__.pop("_c17_local_defs", None)
    return FuncInfo(fi.name, fi.qualname, new, fi.module, fi.cls)


def _loops_unrolled(ctx: Ctx, fi: FuncInfo) -> FuncInfo:
    loops = [l for l in walk_no_nested(fi.node) if isinstance(l, ast.For)]
    if not loops or isinstance(fi.node, ast.Lambda):
        return fi

    def escapes(body: list) -> bool:
        todo = list(body)
        while todo:
            n = todo.pop()
            if isinstance(n, (ast.Break, ast.Continue)):
                return True
            if isinstance(n, (ast.For, ast.AsyncFor, ast.While)):
                todo.extend(n.orelse)             # break / continue inside a nested loop belong to that loop
                continue
            if isinstance(n, (ast.FunctionDef, ast.AsyncFunctionDef, ast.ClassDef, ast.Lambda)):
                continue
            todo.extend(ast.iter_child_nodes(n))
        return False
    plan = {}
    for l in loops:
        if l.orelse or escapes(l.body):
            continue
        if isinstance(l.target, ast.Name):
            names = [l.target.id]
            found = _loop_rows(ctx, fi, l.iter, 0)
        elif isinstance(l.target, (ast.Tuple, ast.List)) and l.target.elts and all(isinstance(t, ast.Name) for t in l.target.elts) \
                and len({t.id for t in l.target.elts}) == len(l.target.elts):
            names = [t.id for t in l.target.elts]
            found = _loop_rows(ctx, fi, l.iter, len(names))
        else:
            continue
        if found is None:
            continue
        rows = found[0]
        if any(len(local_defs(fi, name)) != 1 or name in fi.params() for name in names):
            continue
        inside = {id(n) for st in l.body for n in ast.walk(st)}
        if any(isinstance(n, ast.Name) and n.id in names and isinstance(n.ctx, ast.Load) and id(n) not in inside for n in ast.walk(fi.node)):
            continue                               # a loop variable is read after the loop
        if not _row_env(fi, names, rows, l.body):
            continue
        plan[(l.lineno, l.col_offset)] = (names, rows)
    if not plan:
        return fi
    new = clone(fi.node)

    class Unroll(ast.NodeTransformer):
        def visit_For(self, n):  # noqa: N802
            self.generic_visit(n)
            key = (n.lineno, n.col_offset)
            if key not in plan:
                return n
            names, rows = plan[key]
            out = []
            for r in rows:
                out.extend(_row_subst(names, r, st) for st in n.body)
            return out

        def visit_FunctionDef(self, n):  # noqa: N802
            return n if n is not new else self.generic_visit(n)
        visit_AsyncFunctionDef = visit_Lambda = visit_ClassDef = visit_FunctionDef
    Unroll().visit(new)
    ast.fix_missing_locations(new)
    set_parents(new)
    return FuncInfo(fi.name, fi.qualname, new, fi.module, fi.cls)


def _wrapper_of(dfn: ast.AST, args: list | None):
    """
    (wrapper FunctionDef, name of the parameter holding the decorated function, {decorator parameter: argument}) of a
    decorator function `def d(func): def wrapper(...): ...; return wrapper` (args None) or a decorator factory
    `def d(a, b): def decorator(func): def wrapper(...): ...; return wrapper; return decorator` (args: the argument
    expressions of `@d(x, y)`).  None for any other shape.
    """
    def shape(fn):
        body = [x for x in fn.body if not (isinstance(x, ast.Expr) and isinstance(x.value, ast.Constant))]
        a = fn.args
        if len(body) != 2 or not isinstance(body[0], (ast.FunctionDef, ast.AsyncFunctionDef)) or not isinstance(body[1], ast.Return) \
                or not isinstance(body[1].value, ast.Name) or body[1].value.id != body[0].name or a.vararg or a.kwarg or a.kwonlyargs:
            return None
        return body[0], [x.arg for x in [*a.posonlyargs, *a.args]], a.defaults
    if isinstance(dfn, ast.AsyncFunctionDef):
        return None
    got = shape(dfn)
    if got is None:
        return None
    inner, params, defaults = got
    bound: dict = {}
    if args is not None:
        # the factory's parameters are fixed by the arguments of `@d(...)`
        pos, kws = args
        if len(pos) > len(params) or any(isinstance(x, ast.Starred) for x in pos) or any(k.arg is None or k.arg not in params for k in kws):
            return None
        bound = dict(zip(params, pos))
        for k in kws:
            if k.arg in bound:
                return None
            bound[k.arg] = k.value
        for pn, d in zip(reversed(params), reversed(defaults)):
            bound.setdefault(pn, d)
        if set(bound) != set(params) or any(const_value(v) is NOCONST and not isinstance(v, (ast.Name, ast.Attribute)) for v in bound.values()):
            return None
        got = shape(inner)
        if got is None or isinstance(inner, ast.AsyncFunctionDef):
            return None
        inner, params, defaults = got
    if len(params) != 1:
        return None
    for d in inner.decorator_list:
        # only functools.wraps(func): it copies the name and the documentation, nothing the call does
        if not (isinstance(d, ast.Call) and (chain(d.func) or "").split(".")[-1] == "wraps" and len(d.args) == 1 and isinstance(d.args[0], ast.Name) and d.args[0].id == params[0]):
            return None
    return inner, params[0], bound


def _merge_decorator(fi: FuncInfo, body_fn: ast.AST, wrapper: ast.AST, fname: str, bound: dict):  # noqa: C901, PLR0911, PLR0912
    """
    The function `wrapper` with every call of the decorated function `fname(...)` replaced by the statements of body_fn
    (the engine's own helper inlining, i.e. a behaviour preserving rewrite); None when that cannot be done.
    """
    from ..normalize import Inliner
    w, b = clone(wrapper), clone(body_fn)
    w.decorator_list, b.decorator_list = [], []
    if isinstance(w, ast.AsyncFunctionDef) != isinstance(b, ast.AsyncFunctionDef):
        return None
    bname = "_c17_decorated_body"
    wa, ba = w.args, b.args
    if ba.vararg or ba.kwarg or ba.kwonlyargs or wa.kwonlyargs:
        return None
    bparams = [x.arg for x in [*ba.posonlyargs, *ba.args]]
    inner_calls = [c for c in ast.walk(w) if isinstance(c, ast.Call) and isinstance(c.func, ast.Name) and c.func.id == fname]
    if not inner_calls:
        return None
    stored = {n.id for n in ast.walk(w) if isinstance(n, ast.Name) and isinstance(n.ctx, (ast.Store, ast.Del))}
    # other mentions of the decorated function: its name in a log line is a constant, anything else is not read
    callee_ids = {id(c.func) for c in inner_calls}
    repl: dict = {}
    for n in ast.walk(w):
        if isinstance(n, ast.Attribute) and isinstance(n.value, ast.Name) and n.value.id == fname and n.attr in ("__name__", "__qualname__"):
            repl[id(n)] = ast.Constant(value=fi.name if n.attr == "__name__" else fi.qualname)
    class Fix(ast.NodeTransformer):
        def visit_Attribute(self, n):  # noqa: N802
            return ast.copy_location(repl[id(n)], n) if id(n) in repl else self.generic_visit(n)
    w = Fix().visit(w)
    if any(isinstance(n, ast.Name) and n.id == fname and id(n) not in callee_ids for n in ast.walk(w)) or fname in stored:
        return None
    # *args / **kwargs handed straight through: the wrapper takes what the decorated function takes
    star, kwstar = (wa.vararg.arg if wa.vararg else None), (wa.kwarg.arg if wa.kwarg else None)
    wparams = [x.arg for x in [*wa.posonlyargs, *wa.args]]
    if star or kwstar:
        uses = [n for n in ast.walk(w) if isinstance(n, ast.Name) and n.id in (star, kwstar)]
        passed = set()
        for c in inner_calls:
            fixed = [a for a in c.args if not isinstance(a, ast.Starred)]
            st_ = [a for a in c.args if isinstance(a, ast.Starred)]
            kw_ = [k for k in c.keywords if k.arg is None]
            if len(st_) != (1 if star else 0) or len(kw_) != (1 if kwstar else 0) or any(k.arg is not None for k in c.keywords) or (st_ and c.args[-1] is not st_[0]):
                return None
            if st_ and not (isinstance(st_[0].value, ast.Name) and st_[0].value.id == star):
                return None
            if kw_ and not (isinstance(kw_[0].value, ast.Name) and kw_[0].value.id == kwstar):
                return None
            passed |= {id(x.value) for x in [*st_, *kw_]}
            rest = bparams[len(fixed):]
            if len(fixed) != len(wparams) or len(fixed) > len(bparams):
                return None
            c.args = [*fixed, *[ast.Name(id=q, ctx=ast.Load()) for q in rest]]
            c.keywords = []
        if any(id(n) not in passed for n in uses) or len({len([a for a in c.args]) for c in inner_calls}) != 1:
            return None
        rest = bparams[len(wparams):]
        if set(rest) & (set(wparams) | stored | {n.id for n in ast.walk(w) if isinstance(n, ast.Name)} - set(rest)):
            pass
        taken = {n.id for n in ast.walk(wrapper) if isinstance(n, ast.Name)} | set(wparams)
        if set(rest) & taken:
            return None
        nd = len(ba.defaults)
        rest_args = [*ba.posonlyargs, *ba.args][len(wparams):]
        if nd > len(rest_args) or wa.defaults:
            return None
        wa.args = [*wa.args, *[ast.arg(arg=x.arg, annotation=None) for x in rest_args]]
        wa.defaults = [clone(d) for d in ba.defaults]
        wa.vararg = wa.kwarg = None
        wparams = [x.arg for x in [*wa.posonlyargs, *wa.args]]
    # parameters handed through under another name take the name the decorated function uses (`this` -> `self`)
    rename: dict = {}
    for c in inner_calls:
        if any(isinstance(a, ast.Starred) for a in c.args) or c.keywords:
            continue
        for i, a in enumerate(c.args[:len(bparams)]):
            if isinstance(a, ast.Name) and a.id in wparams and a.id not in stored and a.id != bparams[i]:
                if rename.get(a.id, bparams[i]) != bparams[i]:
                    return None
                rename[a.id] = bparams[i]
    names_w = {n.id for n in ast.walk(w) if isinstance(n, ast.Name)} | set(wparams)
    if rename:
        if set(rename.values()) & (names_w - set(rename)) or len(set(rename.values())) != len(rename):
            rename = {}
    if rename:
        for n in ast.walk(w):
            if isinstance(n, ast.Name) and n.id in rename:
                n.id = rename[n.id]
            elif isinstance(n, ast.arg) and n.arg in rename:
                n.arg = rename[n.arg]
    # parameters of a decorator factory are what `@d(...)` passed
    if bound:
        if set(bound) & stored:
            return None
        class Sub(ast.NodeTransformer):
            def visit_Name(self, n):  # noqa: N802
                return ast.copy_location(clone(bound[n.id]), n) if n.id in bound and isinstance(n.ctx, ast.Load) else n
        w = Sub().visit(w)
    for c in ast.walk(w):
        if isinstance(c, ast.Call) and isinstance(c.func, ast.Name) and c.func.id == fname:
            c.func.id = bname
    b.name = bname
    w.name = "_c17_merged"
    tree = ast.Module(body=[b, w], type_ignores=[])
    ast.fix_missing_locations(tree)
    try:
        inl = Inliner(tree, {"_c17_merged"})
        inl.external = set()
        inl.run()
    except AnalysisError:
        raise
    except Exception:  # noqa: BLE001
        return None
    h = inl.helpers.get((None, bname))
    if h is None or h.failed or not h.inlined:
        return None
    if any(isinstance(n, ast.Name) and n.id == bname for n in ast.walk(w)):
        return None
    return w


def _undecorated(repo, fi: FuncInfo) -> FuncInfo:  # noqa: C901
    """
    fi itself, or - when fi is decorated with decorators the reviewed tree does not have (a guard that moved out of the
    body into a small wrapper) - the function its name now denotes: the wrapper the decorator returns with the decorated
    body in place of the inner call, as one function (parameters bound, behaviour unchanged).  Decorators of the
    reviewed tree stay where they are.  A new decorator that cannot be read makes the verdict undecided.
    """
    if isinstance(fi.node, ast.Lambda) or not getattr(fi.node, "decorator_list", None):
        return fi
    # remembered per repository model: the decorator may live in another file, which differs between variants
    memo = repo.__dict__.setdefault("_c17_undecorated", {})
    if id(fi.node) in memo:
        return memo[id(fi.node)][0]
    memo[id(fi.node)] = (fi, fi.node)
    decs = list(fi.node.decorator_list)
    cur, outer = fi.node, decs
    merged_any = False
    while outer:
        d = outer[-1]
        call_args = None
        ref = d
        if isinstance(d, ast.Call):
            ref, call_args = d.func, (list(d.args), list(d.keywords))
        dfi = None
        try:
            if isinstance(ref, ast.Name):
                r = repo.resolve_name(fi.module, ref.id)
                dfi = r if isinstance(r, FuncInfo) else None
            elif isinstance(ref, ast.Attribute) and isinstance(ref.value, ast.Name):
                r = repo.resolve_name(fi.module, ref.value.id)
                if isinstance(r, tuple) and r[0] == "module" and r[1] is not None:
                    dfi = r[1].functions.get(ref.attr)
                elif fi.cls is not None and ref.value.id == fi.cls.name:
                    dfi = fi.cls.lookup(ref.attr)
        except Exception:  # noqa: BLE001
            dfi = None
        if dfi is None or not _is_new(dfi):
            break                                 # a decorator of the reviewed tree (or of a library): the rules know it as it is
        got = _wrapper_of(dfi.node, call_args)
        new = None
        if got is not None:
            wrapper, fname, bound = got
            # free names of the wrapper are read in the decorator's module: they have to mean the same where the function lives
            local_w = {n.id for n in ast.walk(wrapper) if isinstance(n, ast.Name) and isinstance(n.ctx, (ast.Store, ast.Del))} | {a.arg for a in ast.walk(wrapper) if isinstance(a, ast.arg)}
            free = {n.id for n in ast.walk(wrapper) if isinstance(n, ast.Name) and n.id not in local_w and n.id != fname and n.id not in bound}
            free -= {n.id for dd in wrapper.decorator_list for n in ast.walk(dd) if isinstance(n, ast.Name)}
            global _REPO  # noqa: PLW0603
            _REPO = repo
            if all(_same_global(dfi.module, fi.module, x) for x in free):
                new = _merge_decorator(fi, cur, wrapper, fname, bound)
        if new is None:
            raise AnalysisError(f"undecided: {fi.qualname} is decorated with `{norm(d)[:60]}`, a new decorator whose wrapper could not be merged with the decorated body")
        cur, outer, merged_any = new, outer[:-1], True
    for d in outer[:-1] if outer else []:
        ref = d.func if isinstance(d, ast.Call) else d
        try:
            r = repo.resolve_name(fi.module, ref.id) if isinstance(ref, ast.Name) else None
        except Exception:  # noqa: BLE001
            r = None
        if isinstance(r, FuncInfo) and _is_new(r):
            raise AnalysisError(f"undecided: {fi.qualname} carries the new decorator `{norm(d)[:60]}` outside a decorator of the reviewed tree; what it is called with could not be read")
    if not merged_any:
        return fi
    cur.name = fi.node.name
    cur.decorator_list = [clone(d) for d in outer]
    ast.fix_missing_locations(cur)
    set_parents(cur)
    # the merged function stands where the decorated one stood (class body / module), so that enclosing scopes are found
    cur._parent = parent(fi.node)  # noqa: SLF001
    out = FuncInfo(fi.name, fi.qualname, cur, fi.module, fi.cls)
    memo[id(cur)] = (out, cur)
    memo[id(fi.node)] = (out, fi.node)
    return out


def _localised(repo, fi: FuncInfo) -> FuncInfo:  # noqa: C901, PLR0912
    """
    fi with every call of a module-level function that the reviewed tree does not have and that lives in ANOTHER module
    replaced by that function's statements (the engine's own helper inlining - which only looks at helpers of the same
    file - applied across files).  Used where a rule reads one function as a whole.  A helper whose free names mean
    something else in fi's module, or that the inliner cannot place, stays a call (fi is returned unchanged).
    """
    memo = repo.__dict__.setdefault("_c17_localised", {})
    if id(fi.node) in memo:
        return memo[id(fi.node)][0]
    memo[id(fi.node)] = (fi, fi.node)
    if isinstance(fi.node, ast.Lambda):
        return fi
    global _REPO  # noqa: PLW0603
    _REPO = repo
    found: dict = {}
    sites: dict = {}
    for c in ast.walk(fi.node):
        if not isinstance(c, ast.Call):
            continue
        f = c.func
        tg = None
        try:
            if isinstance(f, ast.Name) and f.id not in fi.params() and not local_defs(fi, f.id):
                r = repo.resolve_name(fi.module, f.id)
                tg = r if isinstance(r, FuncInfo) else None
            elif isinstance(f, ast.Attribute) and isinstance(f.value, ast.Name) and f.value.id not in fi.params() and not local_defs(fi, f.value.id):
                r = repo.resolve_name(fi.module, f.value.id)
                if isinstance(r, tuple) and r[0] == "module" and r[1] is not None:
                    tg = r[1].functions.get(f.attr)
        except Exception:  # noqa: BLE001
            tg = None
        if tg is None or tg.cls is not None or tg.module is fi.module or not _is_new(tg) or tg.node.decorator_list:
            continue
        found[id(tg.node)] = tg
        sites[(c.lineno, c.col_offset, c.end_lineno, c.end_col_offset)] = tg
    if not found:
        return fi
    import builtins
    for tg in found.values():
        bound = {n.id for n in ast.walk(tg.node) if isinstance(n, ast.Name) and isinstance(n.ctx, (ast.Store, ast.Del))} | {a.arg for a in ast.walk(tg.node) if isinstance(a, ast.arg)} \
            | {h.name for h in ast.walk(tg.node) if isinstance(h, ast.ExceptHandler) and h.name}
        for n in ast.walk(tg.node):
            if isinstance(n, ast.Name) and n.id not in bound and not _same_global(tg.module, fi.module, n.id):
                return fi
            if isinstance(n, ast.Name) and n.id not in bound and (n.id in fi.params() or local_defs(fi, n.id)) and not hasattr(builtins, n.id):
                return fi
    from ..normalize import Inliner
    new = clone(fi.node)
    new.decorator_list = []
    new.name = "_c17_whole"
    alias = {id(tg.node): f"_c17_h{i}_{tg.name}" for i, tg in enumerate(found.values())}
    for c in ast.walk(new):
        if isinstance(c, ast.Call):
            tg = sites.get((getattr(c, "lineno", None), getattr(c, "col_offset", None), getattr(c, "end_lineno", None), getattr(c, "end_col_offset", None)))
            if tg is not None and isinstance(c.func, (ast.Name, ast.Attribute)) and (c.func.id if isinstance(c.func, ast.Name) else c.func.attr) == tg.name:
                c.func = ast.copy_location(ast.Name(id=alias[id(tg.node)], ctx=ast.Load()), c.func)
    # `flag &= helper(...)` (a local on the left): the call is evaluated into a temporary first - the local is read before the call
    # either way and the helper cannot rebind it - so that the inliner finds the call as the whole right-hand side of a plain assignment
    counter = [0]

    class Hoist(ast.NodeTransformer):
        def visit_AugAssign(self, n):  # noqa: N802
            if isinstance(n.target, ast.Name) and isinstance(n.value, ast.Call) and isinstance(n.value.func, ast.Name) and n.value.func.id in alias.values():
                counter[0] += 1
                tmp = f"_c17_t{counter[0]}"
                first = ast.copy_location(ast.Assign(targets=[ast.Name(id=tmp, ctx=ast.Store())], value=n.value), n)
                n.value = ast.copy_location(ast.Name(id=tmp, ctx=ast.Load()), n.value)
                return [first, n]
            return n

        def visit_FunctionDef(self, n):  # noqa: N802
            return self.generic_visit(n) if n is new else n
        visit_AsyncFunctionDef = visit_Lambda = visit_ClassDef = visit_FunctionDef
    Hoist().visit(new)
    defs = []
    for tg in found.values():
        d = clone(tg.node)
        d.name = alias[id(tg.node)]
        defs.append(d)
    tree = ast.Module(body=[*defs, new], type_ignores=[])
    ast.fix_missing_locations(tree)
    try:
        inl = Inliner(tree, {"_c17_whole"})
        inl.external = set()
        inl.run()
    except Exception:  # noqa: BLE001
        return fi
    if any(h.failed or not h.inlined for h in inl.helpers.values()) or len(inl.helpers) != len(defs):
        return fi
    if any(isinstance(n, ast.Name) and n.id in alias.values() for n in ast.walk(new)):
        return fi
    new.name = fi.node.name
    new.decorator_list = [clone(d) for d in fi.node.decorator_list]
    ast.fix_missing_locations(new)
    set_parents(new)
    new._parent = parent(fi.node)  # noqa: SLF001
    out = FuncInfo(fi.name, fi.qualname, new, fi.module, fi.cls)
    memo[id(fi.node)] = (out, fi.node)
    memo[id(new)] = (out, new)
    return out


def _method(ctx: Ctx, cls: str, name: str, rel: str) -> FuncInfo:
    """the anchor method as the rules should read it (new decorators merged in)"""
    return _undecorated(ctx.repo, ctx.repo.method(cls, name, rel))


def _follow(ctx: Ctx, fi: FuncInfo, call: ast.AST, tag: str, getsub: tuple[str, ...] = (), generators: bool = False) -> _Frame | None:
    """The frame of a call that has exactly one possible target whose body can be read (method of the own class, module function)."""
    call = strip_cast(call)
    if not isinstance(call, ast.Call):
        return None
    f = call.func
    _use(ctx)
    own = isinstance(f, ast.Attribute) and isinstance(f.value, ast.Name) and f.value.id in ("self", "cls")
    held = _holder_method(fi, f) if not own else None
    if held is not None:
        meth, ctor = held
        if meth.is_async or meth.node is fi.node or (_is_generator(meth.node) and not generators):
            return None
        fr = _Frame(fi, call, _unrolled(ctx, meth), tag, getsub, self_expr=ctor)
        return fr if fr.ok else None
    # module.function(...) / Class.static_method(...): a plain name that is no local of fi in front of the dot
    qualified = not own and isinstance(f, ast.Attribute) and isinstance(f.value, ast.Name) and f.value.id not in fi.params() and not local_defs(fi, f.value.id)
    if not own and not qualified and not isinstance(f, ast.Name):
        return None
    try:
        tg = ctx.repo.resolve_call(fi, call)
        if qualified and not tg:
            # <imported module>.function(...)
            r = ctx.repo.resolve_name(fi.module, f.value.id)
            if isinstance(r, tuple) and r[0] == "module" and r[1] is not None and f.attr in r[1].functions:
                tg = [r[1].functions[f.attr]]
    except Exception:  # noqa: BLE001
        return None
    if len(tg) != 1 or tg[0].is_async or tg[0].node is fi.node or isinstance(tg[0].node, ast.Lambda):
        return None
    tg = [_undecorated(ctx.repo, tg[0])]
    if qualified and tg[0].cls is not None and not {"staticmethod", "classmethod"} & set(tg[0].decorator_names()):
        return None                               # Class.method(obj, ...): the receiver is an argument, not the thing before the dot
    if _is_generator(tg[0].node) and not generators:
        return None
    if isinstance(f, ast.Name) and tg[0].name == "__init__":
        return None
    fr = _Frame(fi, call, _unrolled(ctx, tg[0]), tag, getsub)
    return fr if fr.ok else None


def _unwrapped_iter(e: ast.AST | None) -> ast.AST | None:
    """the collection an iterable expression walks over: list(x) / tuple(x) / iter(x) / sorted(x) / reversed(x) / enumerate(x) -> x"""
    e = strip_cast(e) if e is not None else None
    while isinstance(e, ast.Call) and chain(e.func) in ("list", "tuple", "iter", "sorted", "reversed", "enumerate", "set", "frozenset") and len(e.args) == 1 and not e.keywords:
        e = strip_cast(e.args[0])
    return e


def _only_read(fi: FuncInfo, name: str) -> bool:
    """the local is never changed in place nor handed to other code: it is only iterated, measured, tested or returned"""
    for n in ast.walk(fi.node):
        if not (isinstance(n, ast.Name) and n.id == name and isinstance(n.ctx, ast.Load)):
            continue
        par = parent(n)
        if isinstance(par, (ast.For, ast.AsyncFor)) and par.iter is n:
            continue
        if isinstance(par, ast.comprehension) and par.iter is n:
            continue
        if isinstance(par, ast.Call) and n in par.args and chain(par.func) in ("len", "bool", "list", "tuple", "iter", "sorted", "reversed", "enumerate", "set", "frozenset", "any", "all"):
            continue
        if isinstance(par, (ast.Compare, ast.BoolOp, ast.If, ast.While, ast.Return)) or (isinstance(par, ast.UnaryOp) and isinstance(par.op, ast.Not)) \
                or (isinstance(par, ast.IfExp) and par.test is n):
            continue
        return False
    return True


def _empty_display(e: ast.AST | None) -> bool:
    if isinstance(e, (ast.List, ast.Tuple, ast.Set)):
        return not e.elts
    if isinstance(e, ast.Dict):
        return not e.keys
    if isinstance(e, ast.Constant):
        return isinstance(e.value, (str, bytes)) and not e.value
    return isinstance(e, ast.Call) and chain(e.func) in ("list", "tuple", "set", "frozenset", "dict") and not e.args and not e.keywords


def _holder_method(fi: FuncInfo, f: ast.AST):
    """
    (method, constructor call) when the callee expression f is `<holder>` (its __call__) or `<holder>.method`, <holder>
    being a constructor call - possibly kept in a single-assignment local - of a private parameter-holder class (see
    _ctor_layout): the method runs with self.<attribute> standing for the constructor arguments.
    """
    if _REPO is None:
        return None
    try:
        return _holder_method_of(fi, f)
    except AnalysisError:
        raise
    except Exception:  # noqa: BLE001
        return None


def _holder_method_of(fi: FuncInfo, f: ast.AST):
    name = "__call__"
    obj = f
    if isinstance(f, ast.Attribute):
        name, obj = f.attr, f.value
    for cand, nm in ((f, "__call__"), (obj, name)):
        c0 = resolve(fi, cand) if isinstance(cand, (ast.Name, ast.Call)) else None
        if not isinstance(c0, ast.Call) or any(isinstance(a, ast.Starred) for a in c0.args) or any(k.arg is None for k in c0.keywords):
            continue
        try:
            cls = _REPO.resolve_class_expr(fi.module, c0.func)
        except Exception:  # noqa: BLE001
            cls = None
        if cls is None or not cls.name.startswith("_") or _ctor_layout(cls) is None or nm in ("__init__", "__new__"):
            continue
        meth = cls.methods.get(nm)
        if meth is not None and "staticmethod" not in meth.decorator_names() and "classmethod" not in meth.decorator_names():
            return meth, c0
    return None


def _private_helper(fi: FuncInfo, fr: "_Frame") -> bool:
    """the followed function is part of fi's own implementation: a private method of fi's class, or a method of a private parameter-holder object"""
    h = fr.hf
    if fr.self_expr is not None:
        return True
    if h.cls is not None and h.name.startswith("_") and not h.name.startswith("__"):
        # a private method of the class itself or of one of its bases / mixins
        if h.cls is fi.cls or (fi.cls is not None and h.cls in fi.cls.mro()):
            return True
    # a function the reviewed tree does not have (a block that moved into a new helper, possibly in a new module)
    return _is_new(h)


def _is_new(h: FuncInfo) -> bool:
    """the function is not part of the reviewed tree (no entry in the frozen table of its file, or a file the table does not know)"""
    try:
        from ..localnames import load_table
        table = load_table()
    except Exception:  # noqa: BLE001
        return False
    if not table or h.name.startswith("__"):
        return False
    rel = h.module.relpath
    if rel not in table:
        # a whole new file counts only next to reviewed files (the table covers every file of the reviewed tree)
        return rel.startswith("ipv8/")
    return h.qualname not in table[rel]


def _any_value(_v) -> bool:
    """the outcome `the call returned at all` (used for checkers that deliver their verdict by raising)"""
    return True


class _FinalAtom:
    """The virtual test `the returned expression has the wanted outcome` at a site."""
    kind = "final"

    def __init__(self, expr, sat, truth, key) -> None:
        self.expr, self.sat, self.truth, self.key = expr, sat, truth, key


def _safe_expr(pred, e: ast.AST) -> bool:
    try:
        return bool(pred(e))
    except AnalysisError:
        raise
    except Exception:  # noqa: BLE001
        return False


def _unconditional(node: ast.AST):
    """the sub-expressions a statement / condition atom evaluates whenever it completes (nothing short-circuited, lazy or nested)"""
    if isinstance(node, (ast.For, ast.AsyncFor, ast.While, ast.If, ast.With, ast.AsyncWith, ast.Try, ast.FunctionDef, ast.AsyncFunctionDef, ast.ClassDef, ast.ExceptHandler)):
        return
    todo = [node]
    while todo:
        n = todo.pop()
        yield n
        if isinstance(n, ast.BoolOp):
            todo.append(n.values[0])
        elif isinstance(n, ast.IfExp):
            todo.append(n.test)
        elif isinstance(n, (ast.Lambda, ast.GeneratorExp)):
            continue
        elif isinstance(n, (ast.ListComp, ast.SetComp, ast.DictComp)):
            todo.append(n.generators[0].iter)
        elif isinstance(n, ast.Compare) and len(n.ops) > 1:
            todo.extend([n.left, n.comparators[0]])
        else:
            todo.extend(ast.iter_child_nodes(n))


def _atoms_total(e: ast.AST, pol: bool) -> list:
    """
    match._atoms_with_polarity, except that a member which cannot be split (a falsy `x and y`, a truthy `x or y`) is kept as
    one compound fact instead of being dropped: `not (a or (x and y))` says `not a` and `not (x and y)`.
    """
    if isinstance(e, ast.UnaryOp) and isinstance(e.op, ast.Not):
        return _atoms_total(e.operand, not pol)
    if isinstance(e, ast.BoolOp):
        if isinstance(e.op, ast.And) == pol:
            return [f for v in e.values for f in _atoms_total(v, pol)]
        return [fact_of(e, pol)]
    return _atoms_with_polarity(e, pol) or [fact_of(e, pol)]


def _safe(pred, f: Fact) -> bool:
    try:
        return bool(pred(f))
    except AnalysisError:
        raise
    except Exception:  # noqa: BLE001
        return False


class _Paths:
    """
    The feasible paths from the entry of fi to a site, decided on the CFG.  A local that is assigned in several places
    and later tested (`verdict = None` / `verdict = "too old"` ... `if verdict is not None: return False`) is followed:
    the search state carries the definition that last reached each such local, a test edge that the constant of that
    definition contradicts is never taken, and a test edge taken after a definition `ok = <expr>` also says that <expr>
    had the tested truth value.  A tested call of a helper whose body can be read contributes what holds at every
    return of the helper that produces the tested outcome (parameters replaced by the caller's arguments).
    `final=(expr, sat, truthiness, key)`: only arrivals at the site on which expr satisfies the test count (used for
    `return <expr>` seen as "returns something truthy").
    """

    MAXDEPTH = 3
    MAXTRACKED = 5

    def __init__(self, ctx: Ctx, fi: FuncInfo, site, *, final=None, depth: int = 0, getsub: tuple[str, ...] = (), avoid=()) -> None:  # noqa: C901
        self.ctx, self.fi, self.cfg, self.depth, self.getsub = ctx, fi, ctx.cfg(fi), depth, getsub
        _use(ctx)
        self.gc = lambda e: _global_const(fi, e)
        self._const_cache: dict = {}
        self.avoid = set(avoid)
        if isinstance(site, Node):
            self.sites, self.context = [site], []
        else:
            self.sites = [n for n in self.cfg.nodes_for(site) if self.cfg.reachable(n)]
            self.context = [_pair_of(f) for f in expr_context_facts(site)]
        self.site_set = set(self.sites)
        self.final = _FinalAtom(*final) if final is not None else None
        self._pairs_cache: dict = {}
        self._outcome_cache: dict = {}
        self._subs_cache: dict = {}               # pairs key -> keys of the followed calls that contributed to it
        self._outcome_parts: dict = {}            # outcome key -> (frame, [one _Paths per return of the helper that produces the outcome])
        self._collectors: list = []
        self._norm: dict = {}
        self._keep: list = []
        # locals worth following: tested by name somewhere, assigned more than once, every assignment located on the CFG
        tested: set[str] = set()
        def root_name(s: ast.AST):
            s = strip_cast(s)
            while isinstance(s, (ast.Attribute, ast.Subscript)) and _step_of(s) is not None:
                s = strip_cast(s.value)               # verdict.ok / verdict[0] / verdict.value test the local `verdict`
            return s.id if isinstance(s, ast.Name) else None
        for n in self.cfg.nodes:
            if n.kind == "cond":
                s = _subject(n.ast, True, self.gc)[0]
                if isinstance(strip_cast(s), ast.Call) and chain(strip_cast(s).func) == "isinstance" and len(strip_cast(s).args) == 2:
                    s = strip_cast(s).args[0]
                if root_name(s) is not None:
                    tested.add(root_name(s))
        if final is not None and final[0] is not None and root_name(final[0]) is not None:
            tested.add(root_name(final[0]))
        # a loop over a local that holds an empty display on some paths is not entered on those paths
        self.loop_iter: dict = {}
        for n in self.cfg.nodes:
            if n.kind == "loop" and isinstance(n.ast, (ast.For, ast.AsyncFor)):
                it = _unwrapped_iter(n.ast.iter)
                if isinstance(it, ast.Name) and _only_read(fi, it.id) and not any(isinstance(x, ast.Name) and x.id == it.id and isinstance(x.ctx, (ast.Store, ast.Del))
                                                                                  for st0 in n.ast.body for x in ast.walk(st0)):
                    self.loop_iter[n] = it
                    tested.add(it.id)
        self.tracked: list[str] = []
        self.defs: list[list] = []                # per tracked local: [(value | None, tuple index | None)]
        self.def_at: dict = {}                    # cfg node -> [(local index, definition index, label or None)]
        for name in sorted(tested):
            ds = local_defs(fi, name)
            if len(ds) < 2 or len(self.tracked) >= self.MAXTRACKED:
                continue
            located = []
            for st, _v, _i in ds:
                if isinstance(st, (ast.For, ast.AsyncFor)):
                    ns, lab = [n for n in self.cfg.by_ast.get(id(st), []) if n.kind == "loop"], True
                elif isinstance(st, ast.ExceptHandler):
                    ns, lab = [n for n in self.cfg.by_ast.get(id(st), []) if n.kind == "handler"], None
                else:
                    ns, lab = [n for n in self.cfg.by_ast.get(id(st), []) if n.kind == "stmt"], None
                if not ns:
                    located = None
                    break
                located.append((ns, lab))
            if located is None:
                continue
            k = len(self.tracked)
            self.tracked.append(name)
            self.defs.append([(v, idx) for st, v, idx in ds])
            for j, (ns, lab) in enumerate(located):
                for n in ns:
                    self.def_at.setdefault(n, []).append((k, j, lab))

    def key(self, a: ast.AST) -> str:
        t = self._norm.get(id(a))
        if t is None:
            t = self._norm[id(a)] = norm(a)
            self._keep.append(a)
        return t

    # ---- what is known about a local in a search state
    def _value(self, name: str, st) -> tuple:
        """(defining expression | None, tuple index | None) of the local in this state."""
        if name in self.tracked:
            k = self.tracked.index(name)
            return self.defs[k][st[k]] if st[k] >= 0 else (None, None)
        if local_defs(self.fi, name) and name not in self.fi.params():
            d = single_def(self.fi, name)
            if d is not None:
                return d[0], d[1]
        return None, None

    def _shown(self, s: ast.AST | None, st, depth: int = 0) -> ast.AST | None:
        """
        An expression with the same value as s in this state whose construction is visible: locals are replaced by the
        definition that reached them, components (x.ok, x[0], member.value) of visible constructions by the component.
        """
        if s is None or depth > 8:
            return s
        s = strip_cast(s)
        if self.gc(s) is not NOCONST:
            return s
        if isinstance(s, ast.Name):
            v, idx = self._value(s.id, st)
            if v is None:
                return s
            if idx is None:
                return self._shown(v, st, depth + 1)
            e = _field_expr(self.fi, self._shown(v, st, depth + 1), ("idx", idx))
            return self._shown(e, st, depth + 1) if e is not None else s
        step = _step_of(s) if isinstance(s, (ast.Attribute, ast.Subscript)) else None
        if step is not None:
            e = _field_expr(self.fi, self._shown(s.value, st, depth + 1), step)
            return self._shown(e, st, depth + 1) if e is not None else s
        return s

    def _const_of(self, s: ast.AST, st):
        ck = (id(s), st)
        if ck in self._const_cache:
            return self._const_cache[ck][0]
        e = self._shown(s, st)
        cv = self.gc(e) if e is not None else NOCONST
        if cv is NOCONST and isinstance(e, ast.Call) and chain(e.func) == "isinstance" and len(e.args) == 2 and not e.keywords:
            cv = self._isinstance(self._shown(e.args[0], st), e.args[1])
        self._const_cache[ck] = (cv, s)
        return cv

    def _isinstance(self, obj: ast.AST | None, cls_expr: ast.AST):
        """isinstance(<visible construction>, <class of the repository>) - True / False / NOCONST"""
        try:
            want = self.ctx.repo.resolve_class_expr(self.fi.module, cls_expr)
            if want is None or obj is None:
                return NOCONST
            g = self.gc(obj)
            if g is not NOCONST:
                if isinstance(g, _Sym):
                    return NOCONST if str(g.owner).startswith("object@") else g.owner == want.name
                return False                          # a literal is not an instance of a class defined in the repository
            if isinstance(obj, ast.Call) and _record_fields(self.fi.module, obj.func) is not None:
                have = self.ctx.repo.resolve_class_expr(self.fi.module, obj.func)
                return NOCONST if have is None else have is want
        except Exception:  # noqa: BLE001
            return NOCONST
        return NOCONST

    def _contradicted(self, atom: ast.AST, pol: bool, st) -> bool:
        s, sat, _, _ = _subject(atom, pol, self.gc)
        cv = self._const_of(s, st)
        try:
            return cv is not NOCONST and not sat(cv)
        except Exception:  # noqa: BLE001
            return False

    def _producer(self, s: ast.AST, st) -> tuple:
        """
        (expression, path, moved): the value under test is component `path` of the value of `expression`, which is a
        call when the value comes out of one; moved says that the expression is not s itself (a definition was followed
        or a component of a visible construction taken).
        """
        path: list = []
        first = s = strip_cast(s)
        for _ in range(12):
            s = strip_cast(s)
            if path:
                e = _field_expr(self.fi, s, path[0])
                if e is not None:
                    s, path = e, path[1:]
                    continue
            if isinstance(s, ast.Name):
                v, idx = self._value(s.id, st)
                if v is None:
                    break
                s = v
                if idx is not None:
                    path = [("idx", idx), *path]
                continue
            step = _step_of(s) if isinstance(s, (ast.Attribute, ast.Subscript)) and self.gc(s) is NOCONST else None
            if step is not None:
                # only where the base is a local, a call or a visible construction (attributes of other objects are left alone)
                base = strip_cast(s.value)
                inner = base
                while isinstance(inner, (ast.Attribute, ast.Subscript)) and _step_of(inner) is not None:
                    inner = strip_cast(inner.value)
                if (isinstance(inner, ast.Name) and self._value(inner.id, st)[0] is not None) or isinstance(inner, (ast.Call, ast.Tuple, ast.List)):
                    s, path = base, [step, *path]
                    continue
            break
        return s, path, s is not first

    def pairs(self, atom: ast.AST, pol: bool, st) -> list:
        """Everything the edge `atom is pol` says in this state, as (atom, outcome) pairs in fi's name space."""
        ck = (id(atom), pol, st)
        if ck in self._pairs_cache:
            self._collect(self._subs_cache.get(ck, ()))
            return self._pairs_cache[ck]
        out, work, budget = [], [(atom, pol)], 24
        self._collectors.append([])
        try:
            while work and budget:
                a, p = work.pop()
                budget -= 1
                plain = _plain_call(self.fi, strip_cast(a))
                if plain is not strip_cast(a):
                    # operator.eq(a, b) / not_(x) / contains(c, k) ...: the test it stands for
                    work.extend(_pair_of(f) for f in (_atoms_with_polarity(plain, p) or [fact_of(plain, p)]))
                    continue
                out.append((a, p))
                s0, sat, truth, tk = _subject(a, p, self.gc)
                s, path, moved = self._producer(s0, st)
                if moved and truth is not None and not path:
                    work.extend(_pair_of(f) for f in (_atoms_with_polarity(s, truth) or [fact_of(s, truth)]))
                    continue
                told = self._with_reaching_defs(a, st)
                if told is not None:
                    out.append((told, p))         # the same test, told about the definitions that reached the locals it reads
                if isinstance(s, ast.Call):
                    out.extend(self.outcome(s, sat, truth, tuple(path), tk))
        finally:
            subs = self._collectors.pop()
        self._pairs_cache[ck] = out
        self._subs_cache[ck] = subs
        self._collect(subs)
        return out

    def _with_reaching_defs(self, a: ast.AST, st) -> ast.AST | None:
        """a with every followed (multiply assigned) local replaced by the non-constant expression last assigned to it in this state; None if there is none"""
        if not self.tracked:
            return None
        sub: dict = {}
        for n in ast.walk(a):
            if isinstance(n, ast.Name) and isinstance(n.ctx, ast.Load) and n.id in self.tracked and n.id not in sub:
                k = self.tracked.index(n.id)
                v, idx = self.defs[k][st[k]] if st[k] >= 0 else (None, None)
                if v is not None and idx is None and self.gc(v) is NOCONST and not any(isinstance(x, ast.Name) and x.id == n.id for x in ast.walk(v)):
                    sub[n.id] = v
        if not sub:
            return None
        bound = {x for n in ast.walk(a) if isinstance(n, (ast.ListComp, ast.SetComp, ast.DictComp, ast.GeneratorExp)) for x in _comp_bound(n)}
        if bound & set(sub):
            return None

        class Sub(ast.NodeTransformer):
            def visit_Name(self, n):  # noqa: N802
                return clone(sub[n.id]) if isinstance(n.ctx, ast.Load) and n.id in sub else n
        return Sub().visit(clone(a))

    def _collect(self, cks) -> None:
        if self._collectors:
            self._collectors[-1].extend(k for k in cks if k not in self._collectors[-1])

    def outcome(self, call: ast.Call, sat, truth, idx, tk) -> list:  # noqa: C901
        """What holds in fi whenever the followed call returns a value v (component idx of it) with sat(v)."""
        if self.depth >= self.MAXDEPTH:
            return []
        ck = (id(call), idx, tk)
        self._collect([ck])
        if ck in self._outcome_cache:
            return self._outcome_cache[ck]
        self._outcome_cache[ck] = []
        fr = _follow(self.ctx, self.fi, call, f"h{self.depth + 1}_", self.getsub)
        if fr is None:
            return []
        hf = fr.hf
        path = tuple(idx) if isinstance(idx, (tuple, list)) else () if idx is None else (("idx", idx),)
        per = [(p, p.all_pairs()) for p in _approving_exits(self.ctx, hf, sat, truth, tk, depth=self.depth + 1, getsub=self.getsub, path=path, feasible_only=True)]
        res = []
        if per:
            lifted = []
            for p, ps in per:
                d = {}
                for a, q in ps:
                    la = fr.lift(a)
                    d[(norm(la), q)] = (la, q)
                lifted.append(d)
            for k, (la, q) in lifted[0].items():
                if all(k in other for other in lifted[1:]):
                    res.append((la, q))
            if len(lifted) > 1 and all(lifted):
                # what the different returns establish beyond that, as one alternative per return
                def conj(d: dict) -> ast.AST:
                    vals = [la if q else ast.UnaryOp(op=ast.Not(), operand=la) for la, q in list(d.values())[:16]]
                    return vals[0] if len(vals) == 1 else ast.BoolOp(op=ast.And(), values=vals)
                res.append((ast.BoolOp(op=ast.Or(), values=[conj(d) for d in lifted]), True))
        self._outcome_cache[ck] = res
        self._outcome_parts[ck] = (fr, [p for p, _ps in per])
        return res

    # ---- search
    def _search(self, accept, *, starts=None, targets=None, visit=None, through=None) -> bool:  # noqa: C901, PLR0912
        """Is a target (default: the site) reached on a feasible path that takes no condition edge accepted by accept(u, lab, st)?"""
        targets = self.site_set if targets is None else set(targets)
        init = tuple([-1] * len(self.tracked))
        todo = [(self.cfg.entry, init)] if starts is None else [(s, init) for s in starts]
        seen = set()
        while todo:
            u, st = todo.pop()
            if (u, st) in seen or u in self.avoid:
                continue
            seen.add((u, st))
            gated = u in self.site_set and self.final is not None
            alive = gated and not self._final_contradicted(st)
            if alive and visit is not None:
                visit(self.final, None, st)
            if u in targets:
                if not gated:
                    return True
                if alive and not accept(self.final, None, st):
                    return True
                continue
            done = through is not None and u.ast is not None and through(u)
            for v, lab in u.succ:
                if done and lab != "exc":
                    continue                      # the path has completed a node that settles the question
                if lab in (True, False) and u.kind == "cond":
                    if self._contradicted(u.ast, lab, st):
                        continue
                    if visit is not None:
                        visit(u, lab, st)
                    if accept(u, lab, st):
                        continue
                elif lab in (True, False) and u.kind == "loop":
                    if lab is True and u in self.loop_iter and _empty_display(_unwrapped_iter(self._shown(self.loop_iter[u], st))):
                        continue                  # nothing to iterate over in this state
                    if accept(u, lab, st):
                        continue
                elif lab != "exc" and u.kind == "stmt" and self._checker_call(u) is not None:
                    # `checker(...)` as a statement: leaving it normally says that the checker did not raise
                    if visit is not None:
                        visit(u, lab, st)
                    if accept(u, lab, st):
                        continue
                st2 = st
                if lab != "exc" and u in self.def_at:
                    l2 = list(st)
                    for k, j, only in self.def_at[u]:
                        if only is None or only is lab:
                            l2[k] = j
                    st2 = tuple(l2)
                todo.append((v, st2))
        return False

    def _final_contradicted(self, st) -> bool:
        cv = self._const_of(self.final.expr, st)
        try:
            if cv is not NOCONST and not self.final.sat(cv):
                return True
        except Exception:  # noqa: BLE001
            pass
        if self.final.truth is not None:
            # `return ok and <more>` counts as truthy only where every conjunct can be
            return any(self._contradicted(*_pair_of(f), st) for f in _atoms_with_polarity(self.final.expr, self.final.truth))
        return False

    def _final_pairs(self, expr: ast.AST, sat, truth, tk, st, depth: int = 0) -> list:
        """what `expr satisfies the test` says in this state"""
        expr = strip_cast(expr)
        if isinstance(expr, ast.IfExp) and depth < 4:
            def possible(x: ast.AST) -> bool:
                cv = self._const_of(x, st)
                return cv is NOCONST or bool(sat(cv))
            a, b = possible(expr.body), possible(expr.orelse)
            if a != b:
                out = []
                for f in _atoms_with_polarity(expr.test, a):
                    out.extend(self.pairs(*_pair_of(f), st))
                return out + self._final_pairs(expr.body if a else expr.orelse, sat, truth, tk, st, depth + 1)
            return []
        if truth is None:
            s, path, moved = self._producer(expr, st)
            if isinstance(s, ast.IfExp) and not path and moved:
                return self._final_pairs(s, sat, truth, tk, st, depth + 1)
            return self.outcome(s, sat, None, tuple(path), tk) if isinstance(s, ast.Call) else []
        out = []
        for f in _atoms_total(expr, truth):
            out.extend(self.pairs(*_pair_of(f), st))
        return out

    def edge_pairs(self, u, lab, st) -> list:
        if isinstance(u, _FinalAtom):
            ck = ("final", st)
            if ck not in self._pairs_cache:
                self._collectors.append([])
                try:
                    self._pairs_cache[ck] = self._final_pairs(u.expr, u.sat, u.truth, u.key, st)
                finally:
                    self._subs_cache[ck] = self._collectors.pop()
            return self._pairs_cache[ck]
        if u.kind == "stmt" and self._checker_call(u) is not None:
            ck = (id(u.ast), "completes", st)
            if ck not in self._pairs_cache:
                self._collectors.append([])
                try:
                    self._pairs_cache[ck] = self.outcome(self._checker_call(u), _any_value, None, (), ("completes", True))
                finally:
                    self._subs_cache[ck] = self._collectors.pop()
            self._collect(self._subs_cache.get(ck, ()))
            return self._pairs_cache[ck]
        if u.kind != "cond":
            return []
        return self.pairs(u.ast, lab, st)

    def _checker_call(self, u) -> ast.Call | None:
        """
        The call of an expression statement `helper(...)` whose helper can be read and can raise (raise / assert in its own
        body): a verdict delivered by exception.  Whatever holds at every normal exit of the helper (any returned value,
        falling off the end), told in this function's terms, holds once the statement has completed.
        """
        memo = self.__dict__.setdefault("_checker_memo", {})
        if u not in memo:
            memo[u] = None
            a = u.ast
            # (`_ = checker(...)` / `x = checker(...)`: the same, the value is whatever a normal exit hands back)
            v = strip_cast(a.value) if isinstance(a, (ast.Expr, ast.Assign, ast.AnnAssign)) and a.value is not None else None
            if isinstance(v, ast.Call) and self.depth < self.MAXDEPTH and not (chain(v.func) or "").startswith(("self.logger.", "logger.", "logging.")):
                try:
                    fr = _follow(self.ctx, self.fi, v, f"h{self.depth + 1}_", self.getsub)
                except AnalysisError:
                    fr = None
                if fr is not None and any(isinstance(x, (ast.Raise, ast.Assert)) for x in walk_no_nested(fr.hf.node)):
                    memo[u] = v
        return memo[u]

    def completed_checkers(self) -> list:
        """the statement calls of raising checkers that every feasible path to the site has completed"""
        out = []
        for u in self.cfg.nodes:
            if u.kind == "stmt" and self._checker_call(u) is not None:
                if not self._search(lambda n, lab, st, u=u: n is u and not isinstance(n, _FinalAtom)):
                    out.append(self._checker_call(u))
        return out

    def edge_parts(self, u, lab, st) -> list:
        """the followed calls whose outcome the edge tests: [(frame, [_Paths per producing return of the helper])]"""
        self.edge_pairs(u, lab, st)
        ck = ("final", st) if isinstance(u, _FinalAtom) else (id(u.ast), "completes", st) if u.kind == "stmt" else (id(u.ast), lab, st)
        return [self._outcome_parts[k] for k in self._subs_cache.get(ck, ()) if k in self._outcome_parts]

    def holds(self, pred) -> bool:
        """pred(Fact) is true of something that every feasible path to the site establishes."""
        if not self.sites:
            return False
        if any(_safe(pred, fact_of(a, p)) for a, p in self.context):
            return True
        memo: dict = {}

        def sat(f: Fact, depth: int = 0) -> bool:
            if _safe(pred, f):
                return True
            # (A or B) holds and each alternative establishes it
            if depth < 3 and f.op == "truthy" and f.pos and isinstance(f.left, ast.BoolOp) and isinstance(f.left.op, ast.Or):
                return all(any(sat(g, depth + 1) for g in (_atoms_with_polarity(v, True) or [fact_of(v, True)])) for v in f.left.values)
            return False

        def ok(a, p) -> bool:
            k = (id(a), p)
            if k not in memo:
                memo[k] = sat(fact_of(a, p))
            return memo[k]

        def inside(part) -> bool:
            """every way the helper produces the tested outcome establishes it (told in this function's terms)"""
            fr, subs = part
            k = ("part", id(fr))
            if k not in memo:
                def lifted(f: Fact, fr=fr) -> bool:
                    a, q = _pair_of(f)
                    return _safe(pred, fact_of(fr.lift(a), q))
                memo[k] = bool(subs) and all(sp.holds(lifted) for sp in subs)
            return memo[k]

        def settled(u, lab, st) -> bool:
            if any(ok(a, p) for a, p in self.edge_pairs(u, lab, st)):
                return True
            return any(inside(part) for part in self.edge_parts(u, lab, st))
        return not self._search(settled)

    def feasible(self) -> bool:
        """some feasible path arrives at the site (with a value that can pass the final test)"""
        return bool(self.sites) and self._search(lambda u, lab, st: False)

    def evaluates(self, wanted) -> bool:
        """
        Every feasible path to the site completes (leaves without an exception) a statement / condition that evaluates,
        unconditionally, a sub-expression accepted by wanted(expr) - e.g. `table[key]`, which raises when key is absent.
        """
        memo: dict = {}

        def swallowed(a: ast.AST) -> bool:
            """inside `with suppress(...)`: a failing evaluation does not end the path, it only ends the block"""
            return any(isinstance(w, (ast.With, ast.AsyncWith)) and any(isinstance(i.context_expr, ast.Call) and (chain(i.context_expr.func) or "").split(".")[-1] == "suppress" for i in w.items)
                       for w in ancestors(a))

        def node_has(u) -> bool:
            if u not in memo:
                memo[u] = u.kind in ("stmt", "cond") and not swallowed(u.ast) and any(_safe_expr(wanted, x) for x in _unconditional(u.ast))
            return memo[u]

        def inside(part) -> bool:
            """the tested outcome of a followed helper is only produced after the helper evaluated it (told in this function's terms, .get() kept as written)"""
            fr, subs = part
            k = ("part", id(fr))
            if k not in memo:
                def lifted(e: ast.AST, fr=fr) -> bool:
                    return isinstance(e, (ast.Subscript, ast.Call, ast.Attribute)) and bool(wanted(fr.lift(e, ())))
                memo[k] = bool(subs) and all(sp.evaluates(lifted) for sp in subs)
            return memo[k]
        return bool(self.sites) and not self._search(lambda u, lab, st: any(inside(part) for part in self.edge_parts(u, lab, st)), through=node_has)

    def passes(self, edge) -> bool:
        """Every feasible path to the site takes a CFG edge with edge(u, lab)."""
        return bool(self.sites) and not self._search(lambda u, lab, st: not isinstance(u, _FinalAtom) and edge(u, lab))

    def all_pairs(self) -> list:
        """(atom, outcome) pairs that hold on every feasible path to the site."""
        if not self.sites:
            return []
        cands: dict = {}

        def visit(u, lab, st) -> None:
            for a, p in self.edge_pairs(u, lab, st):
                cands.setdefault((self.key(a), p), (a, p))
        self._search(lambda u, lab, st: False, visit=visit, targets=())
        out = list(self.context)
        for k, (a, p) in cands.items():
            if not self._search(lambda u, lab, st, k=k: any((self.key(x), q) == k for x, q in self.edge_pairs(u, lab, st))):
                out.append((a, p))
        return out

    def facts(self) -> list[Fact]:
        return [fact_of(a, p) for a, p in self.all_pairs()]

    def escapes_from(self, starts, targets) -> bool:
        """Can a target node be reached from the start nodes on a feasible path (definitions made on the way are followed)?"""
        return self._search(lambda u, lab, st: False, starts=starts, targets=targets)


# ------------------------------------------------------------------------------------ registration table
def _table_writes(fi: FuncInfo, table: str, told=None) -> list:
    """
    (statement, key expression, value expression) of every `table[k] = v` / `table.update({k: v})` / `table.__setitem__(k, v)` / `table |= {k: v}` in fi;
    told(e): the text of an expression of fi in the terms `table` is spelled in (a helper that is handed the community, or the table itself, under another name)
    """
    out = []
    def nm(e: ast.AST):
        if told is None:
            return norm(e)
        try:
            return told(e)
        except AnalysisError:
            raise
        except Exception:  # noqa: BLE001
            return None
    for st in walk_no_nested(fi.node):
        if isinstance(st, ast.Assign) and len(st.targets) == 1 and isinstance(st.targets[0], ast.Subscript) and nm(st.targets[0].value) == table \
                and not isinstance(st.targets[0].slice, ast.Slice):
            out.append((st, st.targets[0].slice, st.value))
        elif isinstance(st, ast.AnnAssign) and st.value is not None and isinstance(st.target, ast.Subscript) and nm(st.target.value) == table:
            out.append((st, st.target.slice, st.value))
        elif isinstance(st, ast.AugAssign) and nm(st.target) == table and isinstance(st.op, ast.BitOr) and isinstance(st.value, ast.Dict) and len(st.value.keys) == 1 and st.value.keys[0] is not None:
            out.append((st, st.value.keys[0], st.value.values[0]))
        elif isinstance(st, ast.Expr) and isinstance(st.value, ast.Call) and isinstance(st.value.func, ast.Attribute) and nm(st.value.func.value) == table and not st.value.keywords:
            c = st.value
            if c.func.attr == "update" and len(c.args) == 1 and isinstance(c.args[0], ast.Dict) and len(c.args[0].keys) == 1 and c.args[0].keys[0] is not None:
                out.append((st, c.args[0].keys[0], c.args[0].values[0]))
            elif c.func.attr == "__setitem__" and len(c.args) == 2:
                out.append((st, c.args[0], c.args[1]))
    return out


def known_hash_layout(ctx: Ctx) -> dict:
    """
    position of name / public_key / metadata / time in a registration, read from what add_known_hash stores - a tuple
    display, or a NamedTuple-like record built positionally or by keyword (then "#attrs" maps each of the four to the
    attribute that also reads it).  Every write add_known_hash (or a private helper it calls) makes to the table has to
    be that registration of the hash it was given: a write under another key, or of other data, creates or renews a
    registration - and its five minutes - that the user did not ask for.
    """
    _use(ctx)
    fi = _method(ctx, "IdentityCommunity", "add_known_hash", IC)
    table = "self.known_attestation_hashes"
    writes = [(fi, (lambda e: e), st, k, v) for st, k, v in _table_writes(fi, table)]

    def below(g: FuncInfo, lift, depth: int, seen: tuple) -> None:
        for c in calls(g):
            fr = _follow(ctx, g, c, f"k{depth}_")
            if fr is None or not _private_helper(g, fr) or fr.hf.node in seen or depth > 2:
                continue
            l2 = (lambda e, fr=fr, lift=lift: lift(fr.lift(e)))
            writes.extend((fr.hf, l2, st, k, v) for st, k, v in _table_writes(fr.hf, table, lambda e, l2=l2: _x(fi, l2(e))))
            below(fr.hf, l2, depth + 1, (*seen, g.node))
    below(fi, (lambda e: e), 1, ())
    ctx.anchor(writes, "known_attestation_hashes[...] = (...) in add_known_hash")
    ctx.repo.__dict__["_c17_examined_writes"] = {id(st) for _o, _l, st, _k, _v in writes}
    p = fi.params()

    def slots(owner: FuncInfo, lift, val: ast.AST):
        """({slot: position}, attribute names) of a stored value whose four components are the call's name, time(), subject key and metadata; else None"""
        tup = resolve(owner, val)
        made = _pure_call_value(owner, tup) if isinstance(tup, ast.Call) and _record_fields(owner.module, tup.func) is None else None
        if made is not None and not any(isinstance(n, ast.Name) and n.id.startswith("v_") for n in ast.walk(made)):
            tup = strip_cast(made)                # a one-expression factory (possibly of another module): what it builds
        attrs: list = []
        if isinstance(tup, ast.Call) and not any(isinstance(a, ast.Starred) for a in tup.args) and all(k.arg is not None for k in tup.keywords):
            rf = _record_fields(owner.module, tup.func)
            if rf is not None and rf[1]:
                # a positional record (NamedTuple): component i is field i, whichever way the constructor was called
                elts = [_field_expr(owner, tup, ("idx", i)) for i in range(len(rf[0]))]
                if all(e is not None for e in elts):
                    attrs = [n for n, _d in rf[0]]
                    tup = ast.Tuple(elts=elts, ctx=ast.Load())
        if not isinstance(tup, ast.Tuple) or any(isinstance(e, ast.Starred) for e in tup.elts):
            return None
        layout: dict = {}
        for i, e in enumerate(tup.elts):
            e = lift(e)
            t = _x(fi, e)
            if t == p[2]:
                layout["name"] = i
            elif t == p[3]:
                layout["public_key"] = i
            elif t == p[4]:
                layout["metadata"] = i
            else:
                e2 = _expand(fi, e)
                if isinstance(e2, ast.Call) and chain(e2.func) in ("time", "time.time") and not e2.args:
                    layout["time"] = i
        missing = {"name", "public_key", "metadata", "time"} - set(layout)
        if len(missing) == 1 and "time" not in missing and len(tup.elts) == 4:
            # three components are the call's own values; the fourth is COMPUTED from the remaining parameter (and from no other):
            # it takes that parameter's place, but the registration no longer holds what the user gave
            (field,) = missing
            (i,) = set(range(4)) - set(layout.values())
            want = {"name": p[2], "public_key": p[3], "metadata": p[4]}[field]
            used = {n.id for n in ast.walk(_expand(fi, lift(tup.elts[i]))) if isinstance(n, ast.Name)}
            if want in used and not used & (set(p[1:]) - {want}):
                layout[field] = i
                rewritten.append((field, norm(tup.elts[i])))
        if set(layout) != {"name", "public_key", "metadata", "time"}:
            return None
        layout["#attrs"] = {k: attrs[i] for k, i in layout.items()} if attrs else {}
        return layout
    rewritten: list = []
    shapes = [slots(owner, lift, v) for owner, lift, _st, _k, v in writes]
    layout = next((x for x in shapes if x is not None), None)
    if layout is None:
        tup = resolve(writes[0][0], writes[0][4])
        if not isinstance(tup, (ast.Tuple, ast.Call)):
            raise AnalysisError("anchor-lost: add_known_hash no longer stores a tuple literal")
        raise AnalysisError("anchor-lost: add_known_hash tuple layout not (name, time(), public_key, metadata) in some order")
    if rewritten:
        field, text = rewritten[0]
        ctx.check(False, "should-sign", fi, writes[0][2], "add_known_hash stores the registered name, subject key and metadata exactly as given",
                  f"add_known_hash stores `{text}` in place of the {field} it was given: the registration must hold exactly the values the user registered (should_sign "
                  "compares the disclosed name, subject key and extra metadata with them, and skips the metadata comparison when the stored metadata is None) - a rewritten "
                  "value lets should_sign approve a credential whose name / key / extra metadata the user never approved")
    for (owner, lift, st, key, _v), shape in zip(writes, shapes):
        # the key is (a padded form of) the attribute hash parameter and involves no other argument
        key_names = {n.id for n in ast.walk(_expand(fi, lift(key))) if isinstance(n, ast.Name)}
        key_ok = p[1] in key_names and not key_names & set(p[2:])
        ctx.check(key_ok and shape == layout, "should-sign", owner, st, "add_known_hash writes only the registration of the hash it was given: keyed by the attribute hash, "
                  "holding that call's name, time(), subject key and metadata",
                  f"{owner.qualname} writes the consent table under a key other than the attribute hash it was given, or stores something other than that call's "
                  "(name, time(), subject key, metadata): a registration - and its 300 s window - then exists or is renewed without the user having registered that exact "
                  "hash for that subject, name and metadata, and should_sign attests on the strength of it")
    return layout


def _is_time_call(e: ast.AST) -> bool:
    return isinstance(e, ast.Call) and chain(e.func) in ("time", "time.time") and not e.args and not e.keywords


def _approving_exits(ctx: Ctx, fi: FuncInfo, sat=None, truth=True, tk=("truthy", True), *, depth: int = 0, getsub: tuple[str, ...] = (),  # noqa: C901, PLR0913
                     path: tuple = (), feasible_only: bool = False) -> list:
    """
    One _Paths per way in which fi can hand back a value v whose component `path` (the value itself when empty) satisfies
    sat (default: a truthy value): every `return` whose value - or that component of it, where the return shows how the
    value is built - is not a constant of the other kind (a non-constant counts on the arrivals where it can pass the
    test), and falling off the end when None passes the test.  feasible_only: drop exits no feasible path arrives at.
    """
    sat = sat or (lambda v: bool(v))
    _use(ctx)
    cfg = ctx.cfg(fi)
    out = []

    def passes(cv) -> bool:
        try:
            return bool(sat(cv))
        except Exception:  # noqa: BLE001
            return True
    rets = [r for r in walk_no_nested(fi.node) if isinstance(r, ast.Return)]
    for r in rets:
        given = r.value if r.value is not None else ast.Constant(value=None)
        v = resolve(fi, given)
        for step in path:
            v = resolve(fi, _field_expr(fi, v, step)) if v is not None else None
        cv = _global_const(fi, v) if v is not None else NOCONST
        if cv is not NOCONST:
            if passes(cv):
                out.append(_Paths(ctx, fi, r, depth=depth, getsub=getsub))
            continue
        # a local that holds one of several constructions is read in the state of each arrival
        p = _Paths(ctx, fi, r, final=(_with_path(given, path) if path else r.value, sat, truth, tk), depth=depth, getsub=getsub)
        if not feasible_only or not p.sites or p.feasible():
            out.append(p)
    if passes(None) and not path:
        falls = [u for u, lab in cfg.exit.pred if not isinstance(u.ast, ast.Return) and cfg.reachable(u)]
        if falls:
            out.append(_Paths(ctx, fi, cfg.exit, avoid=[n for r in rets for n in cfg.nodes_for(r)], depth=depth, getsub=getsub))
    return [p for p in out if p.sites]


def _attested_refusal(ctx: Ctx, fi: FuncInfo, approving: list, text, local, over: str, authority, mykey: str, single_key: bool, ga_ret: str, report, depth: int = 0) -> bool:  # noqa: C901, PLR0912, PLR0913
    """
    None of the approving arrivals (each a _Paths of fi) is possible once one of the attestations over the metadata is by
    us.  text(e): canonical text of an expression of fi in should_sign's name space; local(name): what a local of fi is
    called there; authority(name): canonical `get_authority(<name>)`.
    """
    cfg = ctx.cfg(fi)

    def authority_eq(e: ast.AST, att: str) -> bool:
        return isinstance(e, ast.Compare) and len(e.ops) == 1 and isinstance(e.ops[0], ast.Eq) and \
            {text(e.left), text(e.comparators[0])} == {authority(local(att)), mykey}

    def looked_at(g: ast.AST | None):
        """
        How an iterable expression looks at the attestations over the metadata: "elt" - one `authority == our key` verdict per
        attestation; "if" - the attestations whose authority is our key; "key" - the authority of every attestation.  None
        for anything else.
        """
        g = strip_cast(g) if g is not None else None
        while isinstance(g, ast.Call) and chain(g.func) in ("list", "tuple", "set", "frozenset", "iter", "sorted") and len(g.args) == 1 and not g.keywords:
            g = strip_cast(g.args[0])
        if isinstance(g, ast.Call) and chain(g.func) == "map" and len(g.args) == 2 and not g.keywords and text(g.args[1]) == over:
            fn = strip_cast(g.args[0])
            if isinstance(fn, ast.Lambda) and len(fn.args.args) == 1 and not (fn.args.posonlyargs or fn.args.vararg or fn.args.kwarg or fn.args.kwonlyargs):
                att = fn.args.args[0].arg
                if authority_eq(fn.body, att):
                    return "elt"
                return "key" if text(fn.body) == authority(local(att)) else None
            return "key" if isinstance(fn, ast.Attribute) and text(fn) + "(x)" == authority("x") else None
        if isinstance(g, (ast.GeneratorExp, ast.ListComp, ast.SetComp)) and len(g.generators) == 1:
            c = g.generators[0]
            if not c.is_async and isinstance(c.target, ast.Name) and not c.ifs and isinstance(g.elt, ast.Name) and g.elt.id == c.target.id and not isinstance(g, ast.SetComp) \
                    and text(c.iter) != over:
                return looked_at(c.iter)          # (x for x in <inner>): the elements of <inner>, one by one (`yield from <inner>`)
            if c.is_async or not isinstance(c.target, ast.Name) or text(c.iter) != over:
                return None
            att = c.target.id
            if len(c.ifs) == 1 and authority_eq(c.ifs[0], att):
                return "if"
            if c.ifs:
                return None
            if authority_eq(g.elt, att):
                return "elt"
            if isinstance(g.elt, ast.Compare) and len(g.elt.ops) == 1 and isinstance(g.elt.ops[0], ast.NotEq) \
                    and authority_eq(ast.Compare(left=g.elt.left, ops=[ast.Eq()], comparators=g.elt.comparators), att):
                return "neq"
            return "key" if text(g.elt) == authority(local(att)) else None
        return None

    def refusing_fact(f: Fact) -> bool:  # noqa: PLR0911
        """the fact says: no attestation over the metadata has us as its authority"""
        e = f.left
        call = chain(e.func) if isinstance(e, ast.Call) and not e.keywords else None
        if f.op == "truthy" and not f.pos and call == "any" and len(e.args) == 1:
            return looked_at(e.args[0]) == "elt"
        if f.op == "truthy" and f.pos and call == "all" and len(e.args) == 1:
            return looked_at(e.args[0]) == "neq"
        if f.op == "in" and not f.pos and text(f.left) == mykey:
            return looked_at(f.right) == "key"
        # nothing selected: not [a for a in ... if authority(a) == us] / len(...) == 0 / next((...), None) is None
        if f.op == "truthy" and not f.pos and not isinstance(e, ast.GeneratorExp):
            return looked_at(e) == "if" and not isinstance(strip_cast(e), ast.GeneratorExp)
        if f.op == "is" and f.pos and const_value(f.right) is None and call == "next" and len(e.args) == 2 and const_value(e.args[1]) is None:
            return looked_at(e.args[0]) == "if"
        if f.op == "eq" and f.pos:
            for a, b in ((f.left, f.right), (f.right, f.left)):
                if const_value(b) == 0 and not isinstance(const_value(b), bool) and isinstance(a, ast.Call) and not a.keywords and len(a.args) == 1:
                    if chain(a.func) == "len" and not isinstance(strip_cast(a.args[0]), ast.GeneratorExp):
                        return looked_at(a.args[0]) == "if"
                    if chain(a.func) == "sum":
                        return looked_at(a.args[0]) == "elt" or (looked_at(a.args[0]) == "if" and const_value(getattr(strip_cast(a.args[0]), "elt", None)) == 1)
        return False

    def any_over_bytes(e: ast.AST) -> bool:
        return isinstance(e, ast.Call) and chain(e.func) == "any" and mykey in text(e) and "get_authority" in norm(e) and \
            any(isinstance(g, (ast.GeneratorExp, ast.ListComp)) and any("get_authority" in norm(c.iter) for c in g.generators) for g in ast.walk(e))

    def indexed_scan(l: ast.While):
        """
        (sequence, index) when l is `while i < len(seq): ... seq[i] ... i += 1` visiting every element of seq in order: i is
        set to 0 once outside the loop and advanced by exactly one as a top-level statement of the loop body, nothing in the
        body continues the loop early, and seq is a single-assignment local that is only measured and indexed.
        """
        t = l.test
        if not (isinstance(t, ast.Compare) and len(t.ops) == 1):
            return None
        a, op, b = t.left, t.ops[0], t.comparators[0]
        if isinstance(op, ast.Gt):
            a, b, op = b, a, ast.Lt()
        if not (isinstance(op, (ast.Lt, ast.NotEq)) and isinstance(a, ast.Name) and isinstance(b, ast.Call) and chain(b.func) == "len" and len(b.args) == 1 and not b.keywords
                and isinstance(b.args[0], ast.Name)):
            return None
        i, seq = a.id, b.args[0].id
        if i in fi.params() or seq in fi.params() or single_def(fi, seq) is None or single_def(fi, seq)[1] is not None:
            return None
        ds = local_defs(fi, i)
        inits = [st for st, v, idx in ds if isinstance(st, (ast.Assign, ast.AnnAssign)) and idx is None and v is not None and const_value(v) == 0 and not isinstance(const_value(v), bool)]
        steps = [st for st, _v, _idx in ds if isinstance(st, ast.AugAssign) and isinstance(st.op, ast.Add) and const_value(st.value) == 1 and not isinstance(const_value(st.value), bool)]
        if len(ds) != 2 or len(inits) != 1 or len(steps) != 1 or steps[0] not in l.body or l in list(ancestors(inits[0])):
            return None
        todo = list(l.body)
        while todo:
            x = todo.pop()
            if isinstance(x, ast.Continue):
                return None
            if isinstance(x, (ast.For, ast.AsyncFor, ast.While, ast.FunctionDef, ast.AsyncFunctionDef, ast.ClassDef, ast.Lambda)):
                continue
            todo.extend(ast.iter_child_nodes(x))
        for n in ast.walk(fi.node):
            if isinstance(n, ast.Name) and n.id == seq and isinstance(n.ctx, ast.Load):
                par = parent(n)
                if not ((isinstance(par, ast.Call) and chain(par.func) == "len" and par.args == [n]) or (isinstance(par, ast.Subscript) and par.value is n and isinstance(par.ctx, ast.Load))):
                    return None
        return seq, i

    # the scans over the attestations: (loop, text of "authority of the attestation this iteration looks at", edge predicate "the scan is exhausted")
    scans = []
    for l in walk_no_nested(fi.node):
        if isinstance(l, (ast.For, ast.AsyncFor)) and isinstance(l.target, ast.Name):
            loopnodes = [n for n in cfg.by_ast.get(id(l), []) if n.kind == "loop"]
            done = (lambda u, lab, loopnodes=loopnodes: u in loopnodes and lab is False)
            if text(l.iter) == over:
                scans.append((l, authority(local(l.target.id)), done, bool(loopnodes)))
            elif len(local_defs(fi, l.target.id)) == 1 and l.target.id not in fi.params() and looked_at(_expand(fi, l.iter)) == "key":
                # for authority in (get_authority(a) for a in <attestations>): the loop variable is the authority itself (inline, map(), or a generator helper)
                scans.append((l, local(l.target.id), done, bool(loopnodes)))
        elif isinstance(l, ast.While):
            ix = indexed_scan(l)
            if ix is not None and text(ast.Name(id=ix[0], ctx=ast.Load())) in (over, _c(f"list({over})"), _c(f"tuple({over})")):
                elem = text(ast.Subscript(value=ast.Name(id=ix[0], ctx=ast.Load()), slice=ast.Name(id=ix[1], ctx=ast.Load()), ctx=ast.Load()))
                scans.append((l, authority(elem), (lambda u, lab, l=l: u.kind == "cond" and u.ast is l.test and lab is False), True))
    verdict = True
    for p in approving:
        ok = False
        if p.holds(lambda f: refusing_fact(_expanded_fact(fi, f, p.getsub))):
            ok = single_key
        for l, elem_authority, exhausted, located in scans:
            refused = False
            for n in cfg.nodes:
                if n.kind != "cond" or l not in list(ancestors(n.ast)):
                    continue
                f = fact_of(n.ast, True)
                if f.op == "eq" and {text(f.left), text(f.right)} == {elem_authority, mykey}:
                    # once the comparison succeeds no approving arrival is left
                    if not p.escapes_from([v for v, la in n.succ if la is f.pos], p.sites):
                        refused = refused or single_key
                elif any_over_bytes(_expand(fi, n.ast, p.getsub)):
                    if single_key:
                        report(fi, n.ast, f"the 'already attested' refusal iterates over get_authority(), which returns ONE key as `{ga_ret}`: each element is an int and never "
                                          "equals our key (bytes), so the refusal is dead code and a replayed disclosure is attested again")
                    elif not p.escapes_from([v for v, la in n.succ if la is True], p.sites):
                        refused = True
            # the approving arrival lies behind the exhausted loop (every attestation over this metadata has been looked at)
            after = located and p.passes(exhausted)
            ok = ok or (refused and after)
        if not ok and depth < 2:
            # the decision is taken by a helper whose verdict every approving arrival has tested
            for a, q in p.all_pairs():
                s, sat, truth, tk = _subject(a, q, p.gc)
                s, path, _moved = p._producer(s, tuple([-1] * len(p.tracked)))  # noqa: SLF001
                fr = _follow(ctx, fi, s, f"a{depth + 1}_", p.getsub)
                if fr is None:
                    continue
                sub = _approving_exits(ctx, fr.hf, sat, truth, tk, depth=depth + 1, getsub=p.getsub, path=tuple(path), feasible_only=True)
                if not sub:
                    continue
                if _attested_refusal(ctx, fr.hf, sub, lambda e, fr=fr: text(fr.lift(e)), lambda n, fr=fr: local(fr.tag + n if n in fr.locals else n),
                                     over, authority, mykey, single_key, ga_ret, report, depth + 1):
                    ok = True
                    break
        if not ok and depth < 2:
            # ... or by a checker that raises: every approving arrival lies behind its normal completion
            for s in p.completed_checkers():
                fr = _follow(ctx, fi, s, f"a{depth + 1}_", p.getsub)
                if fr is None:
                    continue
                sub = _approving_exits(ctx, fr.hf, _any_value, None, ("completes", True), depth=depth + 1, getsub=p.getsub, feasible_only=True)
                if sub and _attested_refusal(ctx, fr.hf, sub, lambda e, fr=fr: text(fr.lift(e)), lambda n, fr=fr: local(fr.tag + n if n in fr.locals else n),
                                             over, authority, mykey, single_key, ga_ret, report, depth + 1):
                    ok = True
                    break
        verdict = verdict and ok
    return verdict and bool(approving)


def _expanded_fact(fi: FuncInfo, f: Fact, getsub: tuple[str, ...] = ()) -> Fact:
    """The same fact with single-assignment locals of fi replaced by their definitions."""
    a, p = _pair_of(f)
    return fact_of(_expand(fi, a, getsub), p)


def rule_should_sign(ctx: Ctx) -> None:  # noqa: C901, PLR0912, PLR0915
    repo = ctx.repo
    lay = known_hash_layout(ctx)
    fi = _unrolled(ctx, _method(ctx, "IdentityCommunity", "should_sign", IC))
    pseud, meta = fi.params()[1], fi.params()[2]
    TABLE = "self.known_attestation_hashes"
    # tables read with .get(), locals unpacked from a tuple, registration fields read by attribute
    GS = (TABLE, _c(f"{pseud}.tree.elements"), "#tuples", *[f"#field:{TABLE}:{a}={lay[k]}" for k, a in lay["#attrs"].items()])
    approving = _approving_exits(ctx, fi, getsub=GS)
    ctx.check(bool(approving), "should-sign", fi, fi.node, "should_sign has an approving exit; every one of them is examined",
              "should_sign has no approving exit that can be examined")
    # canonical (fully substituted) spellings; they mention only parameters and attributes of self
    AH = _c(f"{pseud}.tree.elements[{meta}.token_pointer].content_hash")
    TR = _c(f"json.loads({meta}.serialized_json_dict)")
    K = _c(f"{TABLE}[{AH}]")
    MYKEY = _c("self.my_peer.public_key.key_to_bin()")
    SUBJ = _c(f"{pseud}.public_key.key_to_bin()")
    stable_params = not local_defs(fi, pseud) and not local_defs(fi, meta)

    def X(e) -> str:  # noqa: N802
        return _x(fi, e, GS)

    def reg(field: str) -> str:
        return _c(f"{K}[{lay[field]}]")

    def local_is(name: str, *canon: str) -> bool:
        # a local of the reviewed name, if it exists, must be what the reviewed code says it is
        if not local_defs(fi, name) and name not in fi.params():
            return True
        return X(ast.Name(id=name, ctx=ast.Load())) in canon
    key_forms = (_c(f"set({TR}.keys())"), _c(f"{TR}.keys()"), TR, _c(f"set({TR})"), _c(f"frozenset({TR}.keys())"), _c(f"list({TR}.keys())"), _c(f"frozenset({TR})"))
    set_forms = (key_forms[0], key_forms[3], key_forms[4], key_forms[6])
    ctx.check(stable_params and local_is("attribute_hash", AH) and local_is("transaction", TR), "should-sign", fi, fi.node,
              "attribute hash = content hash of the token the metadata points to; transaction = the metadata's json",
              "should_sign judges a hash / json other than the disclosed metadata's")

    def present(f, table: str, key: str) -> bool:
        """the fact says that `key` is in `table`: key in table / table.get(key) is not None / table.get(key) truthy (entries are tuples, tokens)"""
        if f.op == "in" and f.pos and X(f.left) == key and X(f.right) in (table, _c(f"{table}.keys()")):
            return True
        left = strip_cast(f.left)
        while isinstance(left, ast.NamedExpr):
            left = strip_cast(left.value)         # (x := table.get(key)) is tested for what it evaluates to
        raw = _x(fi, left, tuple(g for g in GS if g != table))
        # table[key] itself under test: it was evaluated (a missing key raises), or stands for a .get() read in a helper
        if raw in (_c(f"{table}.get({key})"), _c(f"{table}.get({key}, None)"), _c(f"{table}[{key}]")):
            return (f.op == "truthy" and f.pos) or (f.op == "is" and not f.pos and f.right is not None and const_value(f.right) is None)
        # table.get(key, SENTINEL) is not SENTINEL: a missing key hands back the identical fallback object, so the test fails for it
        rx = _expand(fi, left, tuple(g for g in GS if g != table))
        if f.op == "is" and not f.pos and f.right is not None and isinstance(rx, ast.Call) and isinstance(rx.func, ast.Attribute) and rx.func.attr == "get" \
                and not rx.keywords and len(rx.args) == 2 and not isinstance(rx.args[0], ast.Starred) and norm(rx.func.value) == table and norm(rx.args[0]) == key:
            d = strip_cast(f.right)
            if not (_fixed_default(fi, rx.args[1]) and _fixed_default(fi, d)) or const_value(d) is None:
                return False
            # the same object under both spellings (self.NOTHING / cls.NOTHING / Class.NOTHING)
            return norm(strip_cast(rx.args[1])) == norm(d) or _global_const(fi, rx.args[1]) == _global_const(fi, d)
        return False

    def registered(f) -> bool:
        return present(f, TABLE, AH)

    def young(f) -> bool:
        if f.op != "lt" or f.pos:
            return False
        l, r = _expand(fi, f.left, GS), _expand(fi, f.right, GS)
        # not (reg_time + 300 < time())
        def n300(x: ast.AST) -> bool:
            # the window by value: 300, 5 * 60, a module constant holding either ...
            return _is_number(_fold_value(fi.module, x), 300)
        if isinstance(l, ast.BinOp) and isinstance(l.op, ast.Add) and _is_time_call(r):
            return (norm(l.left) == reg("time") and n300(l.right)) or (norm(l.right) == reg("time") and n300(l.left))
        # not (300 < time() - reg_time)
        if n300(l) and isinstance(r, ast.BinOp) and isinstance(r.op, ast.Sub):
            return _is_time_call(r.left) and norm(r.right) == reg("time")
        # not (reg_time < time() - 300)
        if norm(l) == reg("time") and isinstance(r, ast.BinOp) and isinstance(r.op, ast.Sub):
            return _is_time_call(r.left) and n300(r.right)
        return False

    def has_key(f, k: str) -> bool:
        if f.op == "in" and f.pos and const_value(f.left) == k and X(f.right) in key_forms:
            return True
        # {"name", ...} <= keys  /  keys >= {...}   (fact_of spells both as: not (keys < literal))
        def setlit(e: ast.AST):
            """the members of a set-valued literal (a set display, frozenset(...) / set(...) of a literal, a module constant holding one)"""
            e = _expand(fi, e)
            if isinstance(e, ast.Set) or (isinstance(e, ast.Call) and chain(e.func) in ("frozenset", "set")):
                return _const_set(e)
            return None
        if f.op == "lt" and not f.pos and isinstance(f.atom, ast.Compare) and isinstance(f.atom.ops[0], (ast.LtE, ast.GtE)):
            lit = setlit(f.right)
            return lit is not None and k in lit and X(f.left) in key_forms[:2]
        if f.op == "truthy" and isinstance(f.left, ast.Call) and isinstance(f.left.func, ast.Attribute) and len(f.left.args) == 1 and not f.left.keywords:
            recv, a = f.left.func.value, f.left.args[0]
            if f.pos and f.left.func.attr == "issubset" and setlit(recv) is not None:
                return k in setlit(recv) and X(a) in key_forms
            if f.pos and f.left.func.attr == "issuperset" and X(recv) in set_forms:
                return k in (_const_set(_expand(fi, a)) or ())
            # not ({"name", ...} - keys)   /   not {"name", ...}.difference(keys)
            if not f.pos and f.left.func.attr == "difference" and setlit(recv) is not None:
                return k in setlit(recv) and X(a) in key_forms
        if f.op == "truthy" and not f.pos and isinstance(f.left, ast.BinOp) and isinstance(f.left.op, ast.Sub) and setlit(f.left.left) is not None:
            return k in setlit(f.left.left) and X(f.left.right) in (*set_forms, key_forms[1])
        quant = chain(f.left.func) if f.op == "truthy" and isinstance(f.left, ast.Call) and len(f.left.args) == 1 and not f.left.keywords else None
        if (quant == "all" and f.pos) or (quant == "any" and not f.pos):
            # all(k in keys for k in ("name", "date", "schema"))  /  not any(k not in keys for k in (...))  /  all(map(keys.__contains__, (...)))
            g = f.left.args[0]
            if isinstance(g, (ast.GeneratorExp, ast.ListComp)) and len(g.generators) == 1 and not g.generators[0].ifs and isinstance(g.generators[0].target, ast.Name):
                c, var = g.elt, g.generators[0].target.id
                lit = _const_set(_expand(fi, g.generators[0].iter))
                return lit is not None and k in lit and isinstance(c, ast.Compare) and len(c.ops) == 1 and isinstance(c.ops[0], ast.In if quant == "all" else ast.NotIn) \
                    and isinstance(c.left, ast.Name) and c.left.id == var and X(c.comparators[0]) in key_forms
            if quant == "all" and isinstance(g, ast.Call) and chain(g.func) == "map" and len(g.args) == 2 and not g.keywords:
                fn, lit = strip_cast(g.args[0]), _const_set(_expand(fi, g.args[1]))
                return lit is not None and k in lit and isinstance(fn, ast.Attribute) and fn.attr == "__contains__" and X(fn.value) in key_forms
        return False

    def absent(f) -> bool:
        return f.op == "is" and f.pos and const_value(f.right) is None and X(f.left) == reg("metadata")

    def equal(f) -> bool:
        if f.op != "eq" or not f.pos:
            return False
        return any(X(b) == reg("metadata") and _extra_fields_of(fi, _expand(fi, a, GS), TR) for a, b in ((f.left, f.right), (f.right, f.left)))

    def parts(e: ast.AST, pol: bool) -> list:
        return _atoms_with_polarity(e, pol) or [fact_of(e, pol)]

    def meta_ok(f, depth: int = 0) -> bool:
        if absent(f) or equal(f):
            return True
        if f.op == "truthy" and isinstance(f.left, ast.BoolOp) and depth < 3:
            if isinstance(f.left.op, ast.Or) == f.pos:
                # (a or b) holds / (a and b) fails: one member decides, every member has to be one of the two admissions
                return all(any(meta_ok(g, depth + 1) for g in parts(v, f.pos)) for v in f.left.values)
        if f.op == "truthy" and isinstance(f.left, ast.IfExp) and f.pos and depth < 3:
            # `equal if registered is not None else True`: each branch that can be truthy has to be an admission
            def branch(pol: bool, br: ast.AST) -> bool:
                cv = const_value(br)
                if cv is not NOCONST and not cv:
                    return True
                own = [] if cv is not NOCONST else parts(br, True)
                return any(meta_ok(g, depth + 1) for g in [*parts(f.left.test, pol), *own])
            return branch(True, f.left.body) and branch(False, f.left.orelse)
        return False
    ga = _method(ctx, "IdentityDatabase", "get_authority", ID)
    ga_ret = norm(ga.node.returns) if ga.node.returns is not None else ""
    single_key = ga_ret in ("bytes", "'bytes'")
    over = _c(f"{pseud}.database.get_attestations_over({meta})")
    for p in approving:
        site = p.sites[0].ast if p.sites[0].ast is not None else fi.node
        what = "`return True`" if p.final is None else f"`{head(site)}` (truthy)"
        reasons = {
            "token pointer known": lambda f: present(f, _c(f"{pseud}.tree.elements"), _c(f"{meta}.token_pointer")),
            "hash registered": registered,
            "subject key == registered key": lambda f: f.op == "eq" and f.pos and {X(f.left), X(f.right)} == {SUBJ, reg("public_key")},
            "registration younger than 300 s": young,
            "name == registered name": lambda f: f.op == "eq" and f.pos and {X(f.left), X(f.right)} == {_c(f"{TR}['name']"), reg("name")},
        }
        for k in ("name", "date", "schema"):
            reasons[f"required key {k}"] = lambda f, k=k: has_key(f, k)
        results = {w: p.holds(pr) for w, pr in reasons.items()}
        # an absent key also never gets past an (unconditional, completed) `table[key]`: the lookup raises
        results["token pointer known"] = results["token pointer known"] or p.evaluates(
            lambda e: isinstance(e, ast.Subscript) and isinstance(e.ctx, ast.Load) and X(e) == _c(f"{pseud}.tree.elements[{meta}.token_pointer]") and _x(fi, e) == X(e))
        results["hash registered"] = results["hash registered"] or p.evaluates(lambda e: isinstance(e, ast.Subscript) and isinstance(e.ctx, ast.Load) and X(e) == K and _x(fi, e, GS[1:]) == K)
        results["requested_keys = keys of the transaction"] = local_is("requested_keys", *key_forms)
        results["registered metadata"] = p.holds(meta_ok)
        if not all(results.values()):
            # a verdict taken by a callable that is only known at run time (picked by a computed key, getattr, a parameter) cannot be read
            def named(c: ast.Call) -> bool:
                # an early-bound method (`get = self.db.get`, never rebound) is that method, not a choice
                x = _expand(fi, c.func, GS)
                return isinstance(x, ast.Attribute) and chain(x) is not None and not (isinstance(x.value, ast.Name) and (local_defs(fi, x.value.id) or x.value.id in fi.params()[1:]))
            inner = set()
            for n in ast.walk(fi.node):
                if isinstance(n, (ast.ListComp, ast.SetComp, ast.DictComp, ast.GeneratorExp)):
                    inner |= _comp_bound(n)
                elif isinstance(n, ast.Lambda):
                    inner |= {a.arg for a in [*n.args.posonlyargs, *n.args.args, *n.args.kwonlyargs]}
            opaque = [c for c in calls(fi) if (isinstance(c.func, ast.Name) and (local_defs(fi, c.func.id) or c.func.id in fi.params()) and not named(c))
                      or isinstance(c.func, ast.Subscript) or (isinstance(c.func, ast.Call) and chain(c.func.func) == "getattr")]
            # ... also when it is the variable of a comprehension / the parameter of a lambda that is called
            opaque += [c for c in ast.walk(fi.node) if isinstance(c, ast.Call) and ((isinstance(c.func, ast.Name) and c.func.id in inner) or
                                                                                 (isinstance(c.func, ast.Subscript) and isinstance(c.func.value, ast.Name) and c.func.value.id in inner))]
            if opaque:
                raise AnalysisError(f"undecided: should_sign decides through `{norm(opaque[0])[:80]}`, a callable chosen at run time; "
                                    f"`{[w for w, ok in results.items() if not ok][0]}` could not be established without reading it")
        meta_result = results.pop("registered metadata")
        shown = None
        for w, ok in results.items():
            if not ok and shown is None:
                shown = [str(f) for f in p.facts()]
            ctx.check(ok, "should-sign", fi, site, f"{what} dominated by: {w}",
                      f"should_sign can approve although the condition `{w}` does not hold", shown if not ok else None)
        # registered metadata present => extra fields equal: every path to the approving exit establishes "no metadata
        # registered" or "extra fields == registered metadata"
        ctx.check(meta_result, "should-sign", fi, site, f"{what} unreachable when registered metadata exists and differs from the extra fields",
                  "should_sign approves metadata that differs from the metadata fixed at registration")
    # already attested by us

    def report(f2, node, reason) -> None:
        ctx.check(False, "should-sign", f2, node, "already-attested test compares whole keys", reason)
    ok = _attested_refusal(ctx, fi, approving, X, lambda n: n, over, lambda n: _c(f"{pseud}.database.get_authority({n})"), MYKEY, single_key, ga_ret, report)
    site = approving[0].sites[0].ast if approving and approving[0].sites[0].ast is not None else fi.node
    ctx.check(ok, "should-sign", fi, site, "refuses when one of the attestations over this metadata is already by us", "should_sign attests the same metadata twice")
    # registrations are written only by add_known_hash
    view = _state_view(ctx, "known_attestation_hashes")
    uses = list(repo.attribute_uses("known_attestation_hashes"))
    if view is not None and view[1] != "known_attestation_hashes":
        uses += [(m, f2, a) for m, f2, a in repo.attribute_uses(view[1]) if f2 is not None and f2.node is view[3].node]
    for m, f2, a in uses:
        p = parent(a)
        w = isinstance(a.ctx, ast.Store) or (isinstance(p, ast.Subscript) and isinstance(p.ctx, (ast.Store, ast.Del))) or \
            (isinstance(p, ast.Attribute) and p.attr in _MUTATORS and isinstance(parent(p), ast.Call))
        if w:
            allowed = f2 is not None and (f2.qualname in ("IdentityCommunity.add_known_hash", "IdentityCommunity.__init__")
                                          or _view_creation(ctx, "known_attestation_hashes", f2, a)
                                          or _only_reached_from(ctx, f2, ("IdentityCommunity.add_known_hash", "IdentityCommunity.__init__")))
            if allowed and (f2.cls is None or f2.cls.name != "IdentityCommunity") and not _view_creation(ctx, "known_attestation_hashes", f2, a):
                # a write that moved out of the class (new module-level helper / wrapper): it has to be one of the writes whose key and value were examined above
                allowed = id(enclosing_stmt(a)) in repo.__dict__.get("_c17_examined_writes", ()) or _only_reached_from(ctx, f2, ("IdentityCommunity.__init__",))
            ctx.check(allowed, "should-sign", f2 or m.relpath, enclosing_stmt(a),
                      "registrations written only by add_known_hash", "the consent table is written outside add_known_hash")


_MUTATORS = ("update", "setdefault", "pop", "clear", "popitem", "__setitem__", "__delitem__", "__ior__")


def _only_reached_from(ctx: Ctx, f2: FuncInfo, allowed: tuple[str, ...], depth: int = 0) -> bool:
    """
    f2 is a private method that is only ever called (as self.f2(...)) by the allowed members or by such private methods -
    or a function the reviewed tree does not have (a module-level helper, possibly of a new private module; the wrapper
    of a new decorator) whose every call site lies in an allowed member or in such a helper and that is never used as a value.
    """
    if depth > 3 or f2.name.startswith("__"):
        return False
    if f2.cls is None or not f2.name.startswith("_"):
        return _new_function_only_reached_from(ctx, f2, allowed, depth)
    n = 0
    for m, g, c in ctx.repo.callers_of_name(f2.name):
        if g is None:
            return False
        try:
            tg = ctx.repo.resolve_call(g, c)
        except Exception:  # noqa: BLE001
            return False
        if f2 not in tg:
            if isinstance(c.func, ast.Attribute) and not tg and m is f2.module:
                return False                      # unresolved receiver with this method name in the class's own module: cannot exclude it
            continue
        n += 1
        if g.cls is not f2.cls or not (isinstance(c.func, ast.Attribute) and isinstance(c.func.value, ast.Name) and c.func.value.id == "self"):
            return False
        if g.qualname not in allowed and not _only_reached_from(ctx, g, allowed, depth + 1):
            return False
    # the method object must not escape (passed as a callback)
    for m, g, a in ctx.repo.attribute_uses(f2.name):
        if not (isinstance(parent(a), ast.Call) and parent(a).func is a):
            return False
    return n > 0


def _new_function_only_reached_from(ctx: Ctx, f2: FuncInfo, allowed: tuple[str, ...], depth: int) -> bool:  # noqa: C901, PLR0911
    if not _is_new(f2) or f2.cls is not None and not f2.name.startswith("_"):
        return False
    outer = next((a for a in ancestors(f2.node) if isinstance(a, (ast.FunctionDef, ast.AsyncFunctionDef))), None)
    if outer is not None:
        # the wrapper a new decorator returns: it runs as (part of) every function the decorator is applied to
        dfi = ctx.repo.info(outer) if hasattr(ctx.repo, "info") else None
        if dfi is None or not _is_new(dfi) or _wrapper_of(outer, None) is None or _wrapper_of(outer, None)[0] is not f2.node:
            return False
        users = [g for g in ctx.repo.all_functions() if any((isinstance(d, ast.Name) and d.id == outer.name) or (isinstance(d, ast.Attribute) and d.attr == outer.name)
                                                            for d in getattr(g.node, "decorator_list", []))]
        for m in ctx.repo.modules.values():
            for x in ast.walk(m.tree):
                if isinstance(x, ast.Name) and x.id == outer.name and isinstance(x.ctx, ast.Load) and not any(x in getattr(g.node, "decorator_list", []) for g in users):
                    return False                  # the decorator is also used in some other way
        return bool(users) and all(g.qualname in allowed or _only_reached_from(ctx, g, allowed, depth + 1) for g in users)
    n = 0
    for m, g, c in ctx.repo.callers_of_name(f2.name):
        try:
            tg = ctx.repo.resolve_call(g, c) if g is not None else []
            if not tg and isinstance(c.func, ast.Attribute) and isinstance(c.func.value, ast.Name):
                r = ctx.repo.resolve_name(m, c.func.value.id)
                if isinstance(r, tuple) and r[0] == "module" and r[1] is f2.module:
                    tg = [f2]
        except Exception:  # noqa: BLE001
            return False
        if f2 not in tg:
            if isinstance(c.func, ast.Name) and m is f2.module and not tg:
                return False
            continue
        n += 1
        if g is None or (g.qualname not in allowed and not _only_reached_from(ctx, g, allowed, depth + 1)):
            return False
    # the function object must not escape: every mention of its name is the callee of a call or an import
    for m in ctx.repo.modules.values():
        if m is not f2.module and f2.name not in m.imports and not any(v[0].endswith(f2.module.name.split(".")[-1]) for v in m.imports.values() if v):
            continue
        for x in ast.walk(m.tree):
            if isinstance(x, ast.Name) and x.id == f2.name and isinstance(x.ctx, ast.Load) and not (isinstance(parent(x), ast.Call) and parent(x).func is x):
                return False
            if isinstance(x, ast.Attribute) and x.attr == f2.name and isinstance(x.ctx, ast.Load) and not (isinstance(parent(x), ast.Call) and parent(x).func is x):
                return False
    return n > 0


def _extra_fields_of(fi: FuncInfo, dc: ast.AST | None, tr: str) -> bool:  # noqa: C901, PLR0911, PLR0912, PLR0915
    """
    dc (already expanded) evaluates to the dict of exactly those entries of <transaction> whose key is none of name / date /
    schema.  Read by what it computes: the keys come from the transaction (its items(), its keys, a set of its keys), the
    three names are taken out by a filter on the key and / or by a set difference on the keys, each value is the
    transaction's own value for that key.  `{k: v for k, v in T.items() if k not in R}`, `{k: T[k] for k in set(T) - R}`,
    `dict((k, T[k]) for k in T if k not in R)`, `dict(filter(lambda kv: kv[0] not in R, T.items()))` ... are the same dict
    (dict equality does not depend on the insertion order).
    """
    required = {"name", "date", "schema"}
    dc = strip_cast(dc) if dc is not None else None
    key_forms = {_c(t.format(tr=tr)) for t in ("{tr}", "{tr}.keys()", "set({tr}.keys())", "set({tr})", "frozenset({tr}.keys())", "frozenset({tr})", "list({tr}.keys())",
                                               "list({tr})", "tuple({tr}.keys())", "tuple({tr})", "sorted({tr})", "sorted({tr}.keys())", "iter({tr})", "iter({tr}.keys())")}
    item_forms = {_c(t.format(tr=tr)) for t in ("{tr}.items()", "list({tr}.items())", "tuple({tr}.items())", "iter({tr}.items())")}

    def excluded_by(t: ast.AST, is_key) -> set | None:
        """the constants a filter condition on the key keeps out (`k not in R`, `not k in R`, `k != "c"`, conjunctions of these); None: not such a condition"""
        neg = False
        while isinstance(t, ast.UnaryOp) and isinstance(t.op, ast.Not):
            t, neg = t.operand, not neg
        if isinstance(t, ast.BoolOp) and ((isinstance(t.op, ast.And) and not neg) or (isinstance(t.op, ast.Or) and neg)):
            out: set = set()
            for v in t.values:
                got = excluded_by(ast.UnaryOp(op=ast.Not(), operand=v) if neg else v, is_key)
                if got is None:
                    return None
                out |= got
            return out
        if not (isinstance(t, ast.Compare) and len(t.ops) == 1 and is_key(t.left)):
            return None
        op, r = t.ops[0], t.comparators[0]
        if (isinstance(op, ast.NotIn) and not neg) or (isinstance(op, ast.In) and neg):
            return _const_set(r)
        if (isinstance(op, ast.NotEq) and not neg) or (isinstance(op, ast.Eq) and neg):
            return {const_value(r)} if isinstance(const_value(r), str) else None
        return None

    def keys_minus(e: ast.AST, depth: int = 0) -> set | None:
        """e iterates over the transaction's keys except the returned constants; None: something else"""
        e = strip_cast(e)
        if norm(e) in key_forms:
            return set()
        if depth > 4:
            return None
        if isinstance(e, ast.BinOp) and isinstance(e.op, ast.Sub):
            left, right = keys_minus(e.left, depth + 1), _const_set(strip_cast(e.right))
            return None if left is None or right is None else left | right
        if isinstance(e, ast.Call) and not e.keywords and not any(isinstance(x, ast.Starred) for x in e.args):
            if isinstance(e.func, ast.Attribute) and e.func.attr == "difference" and e.args:
                out = keys_minus(e.func.value, depth + 1)
                rights = [_const_set(strip_cast(x)) for x in e.args]
                if out is None or any(x is None for x in rights):
                    return None
                return out.union(*rights)
            if chain(e.func) in ("list", "tuple", "set", "frozenset", "sorted", "iter") and len(e.args) == 1:
                return keys_minus(e.args[0], depth + 1)
            if chain(e.func) == "filter" and len(e.args) == 2:
                fn = strip_cast(e.args[0])
                if isinstance(fn, ast.Lambda) and len(fn.args.args) == 1 and not (fn.args.posonlyargs or fn.args.vararg or fn.args.kwarg or fn.args.kwonlyargs or fn.args.defaults):
                    var = fn.args.args[0].arg
                    inner, ex = keys_minus(e.args[1], depth + 1), excluded_by(fn.body, lambda x: isinstance(x, ast.Name) and x.id == var)
                    return None if inner is None or ex is None else inner | ex
        if isinstance(e, (ast.GeneratorExp, ast.ListComp, ast.SetComp)) and len(e.generators) == 1 and not e.generators[0].is_async and isinstance(e.generators[0].target, ast.Name) \
                and isinstance(e.elt, ast.Name) and e.elt.id == e.generators[0].target.id:
            var = e.generators[0].target.id
            out = keys_minus(e.generators[0].iter, depth + 1)
            for t in e.generators[0].ifs:
                ex = excluded_by(t, lambda x: isinstance(x, ast.Name) and x.id == var)
                if out is None or ex is None:
                    return None
                out = out | ex
            return out
        return None

    def items_minus(e: ast.AST) -> set | None:
        """e iterates over the transaction's (key, value) pairs except those whose key is one of the returned constants"""
        e = strip_cast(e)
        if norm(e) in item_forms:
            return set()
        if isinstance(e, ast.Call) and chain(e.func) == "filter" and len(e.args) == 2 and not e.keywords:
            fn = strip_cast(e.args[0])
            if isinstance(fn, ast.Lambda) and len(fn.args.args) == 1 and not (fn.args.posonlyargs or fn.args.vararg or fn.args.kwarg or fn.args.kwonlyargs or fn.args.defaults):
                var = fn.args.args[0].arg
                inner = items_minus(e.args[1])
                ex = excluded_by(fn.body, lambda x: isinstance(x, ast.Subscript) and isinstance(x.value, ast.Name) and x.value.id == var and const_value(x.slice) == 0
                                 and not isinstance(const_value(x.slice), bool))
                return None if inner is None or ex is None else inner | ex
        return None
    if isinstance(dc, ast.Call) and chain(dc.func) == "dict" and len(dc.args) == 1 and not dc.keywords and not isinstance(dc.args[0], ast.Starred):
        a = strip_cast(dc.args[0])
        if isinstance(a, (ast.GeneratorExp, ast.ListComp)) and isinstance(a.elt, ast.Tuple) and len(a.elt.elts) == 2:
            key, value, gens = a.elt.elts[0], a.elt.elts[1], a.generators
        else:
            return items_minus(a) == required             # dict(<the pairs themselves>)
    elif isinstance(dc, ast.DictComp):
        key, value, gens = dc.key, dc.value, dc.generators
    else:
        return False
    if len(gens) != 1 or gens[0].is_async:
        return False
    g = gens[0]
    if isinstance(g.target, ast.Tuple) and len(g.target.elts) == 2 and all(isinstance(t, ast.Name) for t in g.target.elts):
        k, v = g.target.elts[0].id, g.target.elts[1].id
        if k == v:
            return False
        out = items_minus(g.iter)
    elif isinstance(g.target, ast.Name):
        k, v = g.target.id, None
        out = keys_minus(g.iter)
    else:
        return False
    if out is None or not (isinstance(key, ast.Name) and key.id == k):
        return False
    # the value stored under k: the pair's own value, or the transaction's entry for k (k is one of its keys)
    own = isinstance(value, ast.Name) and v is not None and value.id == v
    looked_up = norm(value) in (_c(f"{tr}[{k}]"), _c(f"{tr}.get({k})"))
    if not (own or looked_up):
        return False
    for t in g.ifs:
        ex = excluded_by(t, lambda x: isinstance(x, ast.Name) and x.id == k)
        if ex is None:
            return False
        out = out | ex
    return out == required


_UNK = "\x00"          # an unknown piece of text inside a partially known string


class _Obj:
    """A record object whose construction is visible: `Class(args)` evaluated in function fi, whose parameters hold the texts / objects in consts."""

    def __init__(self, cls, call: ast.Call, fi: FuncInfo, consts: dict) -> None:
        self.cls, self.call, self.fi, self.consts = cls, call, fi, consts


def _module_scope(m) -> FuncInfo:
    """a function-like scope without parameters and locals, for reading expressions written at the top level of module m"""
    memo = m.tree.__dict__
    if "_c17_scope" not in memo:
        node = ast.FunctionDef(name="<module>", args=ast.arguments(posonlyargs=[], args=[], vararg=None, kwonlyargs=[], kw_defaults=[], kwarg=None, defaults=[]),
                               body=[ast.Pass()], decorator_list=[], returns=None, type_comment=None, type_params=[])
        ast.fix_missing_locations(node)
        set_parents(node)
        memo["_c17_scope"] = node
    return FuncInfo("<module>", "<module>", memo["_c17_scope"], m, None)


def _obj_of(ctx: Ctx, fi: FuncInfo, e: ast.AST | None, consts: dict, depth: int = 0):
    """the _Obj an expression denotes (a constructor call of a repository class: inline, in a single-assignment local, in a parameter the caller fixed, in a module constant written once), else None"""
    if e is None or depth > 6:
        return None
    e = strip_cast(e)
    try:
        if isinstance(e, ast.Name):
            if e.id in consts and not local_defs(fi, e.id):
                return consts[e.id] if isinstance(consts[e.id], _Obj) else None
            if e.id in fi.params():
                return None
            d = single_def(fi, e.id)
            if d is not None:
                return _obj_of(ctx, fi, d[0], consts, depth + 1) if d[1] is None else None
            if local_defs(fi, e.id):
                return None
            r = ctx.repo.resolve_name(fi.module, e.id)
            if isinstance(r, tuple) and r[0] == "const":
                own = next((k for k, x in r[1].constants.items() if x is r[2]), None)
                if own is not None and _written_once(r[1], own):
                    return _obj_of(ctx, _module_scope(r[1]), r[2], {}, depth + 1)
            return None
        if isinstance(e, ast.Call) and not any(isinstance(a, ast.Starred) for a in e.args) and all(k.arg is not None for k in e.keywords):
            c = ctx.repo.resolve_class_expr(fi.module, e.func)
            if c is not None and not any(c.lookup(x) is not None for x in ("__new__", "__getattr__", "__getattribute__", "__setattr__")):
                return _Obj(c, e, fi, consts)
    except AnalysisError:
        raise
    except Exception:  # noqa: BLE001
        return None
    return None


def _obj_attr_patterns(ctx: Ctx, obj: _Obj, attr: str, depth: int) -> list[str] | None:  # noqa: C901, PLR0911, PLR0912
    """
    The texts `<obj>.<attr>` can evaluate to: a read-only @property is its returned expressions with self being obj; a
    stored attribute is what __init__ stored there (parameters being the constructor arguments), unknown text when any
    other code may store it; a NamedTuple / dataclass field is the constructor argument; a class constant is itself.
    """
    cls = obj.cls
    meth = cls.lookup(attr)
    if meth is not None:
        if not set(meth.decorator_names()) & {"property", "cached_property", "functools.cached_property"} or len(meth.node.decorator_list) != 1 or meth.is_async:
            return None
        if any(attr in k.methods and k.methods[attr] is not meth for k in cls.all_subclasses()):
            return None
        rets = [r for r in walk_no_nested(meth.node) if isinstance(r, ast.Return)]
        params = meth.params()
        if not rets or len(params) != 1 or _is_generator(meth.node):
            return None
        out: list[str] = []
        for r in rets:
            ps = _str_patterns(ctx, meth, r.value, {params[0]: obj}, depth + 1) if r.value is not None else None
            if ps is None:
                return None
            out.extend(ps)
        return out
    fe = _field_expr(obj.fi, obj.call, ("attr", attr)) if _record_fields(obj.fi.module, obj.call.func) is not None else None
    if fe is not None:
        return _str_patterns(ctx, obj.fi, fe, obj.consts, depth + 1)
    init = cls.lookup("__init__")
    if init is not None and not init.is_async:
        fr = _Frame(obj.fi, obj.call, init, "i_", self_expr=obj.call)
        ip = init.params()
        if not fr.ok or not ip:
            return None
        iconsts: dict = {}
        for name, a in fr.bind.items():
            if name == ip[0] or local_defs(init, name):
                continue
            ps = _str_patterns(ctx, obj.fi, a, obj.consts, depth + 1)
            if ps is not None:
                iconsts[name] = ps
        vals, other = [], False
        for k in [cls, *cls.mro()[1:], *cls.all_subclasses()]:
            for mname, m2 in k.methods.items():
                for st in ast.walk(m2.node):
                    if isinstance(st, ast.Attribute) and st.attr == attr and isinstance(st.ctx, (ast.Store, ast.Del)):
                        par = parent(st)
                        if m2 is init and isinstance(st.value, ast.Name) and st.value.id == ip[0] and isinstance(par, (ast.Assign, ast.AnnAssign)) and par.value is not None \
                                and (par.target if isinstance(par, ast.AnnAssign) else par.targets[0] if len(par.targets) == 1 else None) is st:
                            vals.append(par.value)
                        else:
                            other = True
        if vals:
            out = []
            for v in vals:
                ps = _str_patterns(ctx, init, v, iconsts, depth + 1)
                if ps is None:
                    return None
                out.extend(ps)
            return [*out, _UNK] if other else out
    a = cls.lookup_attr(attr)
    if a is not None:
        owner = next((k for k in cls.mro() if attr in k.attrs), cls)
        return _str_patterns(ctx, _module_scope(owner.module), a, {}, depth + 1)
    return None


def _str_patterns(ctx: Ctx, fi: FuncInfo, e: ast.AST | None, consts: dict, depth: int = 0) -> list[str] | None:  # noqa: C901, PLR0911, PLR0912
    """
    The texts a string expression of fi can evaluate to, unknown pieces replaced by _UNK; None when e is not (known to
    be) a string.  consts: parameter name -> texts fixed by the caller.  A subscript of a class-level dict literal
    denotes the entry of a fully known key, else every entry (dispatch table).
    """
    if e is None or depth > 8:
        return None
    e = strip_cast(e)

    def product(parts: list) -> list[str]:
        out = [""]
        for ps in parts:
            out = [a + b for a in out for b in ps][:32]
        return out
    if isinstance(e, ast.Constant):
        return [e.value] if isinstance(e.value, str) else None
    if isinstance(e, ast.JoinedStr):
        parts = []
        for v in e.values:
            if isinstance(v, ast.Constant):
                parts.append([str(v.value)])
            else:
                inner = _str_patterns(ctx, fi, v.value, consts, depth + 1) if isinstance(v, ast.FormattedValue) and v.format_spec is None and v.conversion == -1 else None
                parts.append(inner or [_UNK])
        return product(parts)
    if isinstance(e, ast.BinOp) and isinstance(e.op, ast.Add):
        l, r = _str_patterns(ctx, fi, e.left, consts, depth + 1), _str_patterns(ctx, fi, e.right, consts, depth + 1)
        if l is None and r is None:
            return None
        return product([l or [_UNK], r or [_UNK]])
    if isinstance(e, ast.BinOp) and isinstance(e.op, ast.Mod):
        l = _str_patterns(ctx, fi, e.left, consts, depth + 1)
        if l is None:
            return None
        import re
        return [re.sub(r"%(\([^)]*\))?[-#0 +]*\d*(\.\d+)?[sdrif]", _UNK, t) for t in l]
    if isinstance(e, ast.Call) and isinstance(e.func, ast.Attribute) and e.func.attr == "format":
        l = _str_patterns(ctx, fi, e.func.value, consts, depth + 1)
        if l is None:
            return None
        import re
        return [re.sub(r"\{[^{}]*\}", _UNK, t) for t in l]
    if isinstance(e, ast.Call) and isinstance(e.func, ast.Attribute) and e.func.attr == "join" and isinstance(const_value(e.func.value), str):
        return [_UNK]
    if isinstance(e, ast.IfExp):
        a, b = _str_patterns(ctx, fi, e.body, consts, depth + 1), _str_patterns(ctx, fi, e.orelse, consts, depth + 1)
        return None if a is None and b is None else [*(a or [_UNK]), *(b or [_UNK])]
    if isinstance(e, ast.Name):
        if e.id in consts and not local_defs(fi, e.id):
            return consts[e.id] if not isinstance(consts[e.id], _Obj) else None
        ds = local_defs(fi, e.id)
        if ds:
            out: list[str] = []
            for st, v, idx in ds:
                ps = _str_patterns(ctx, fi, v, consts, depth + 1) if v is not None and idx is None and not isinstance(st, ast.AugAssign) else None
                if ps is None:
                    return None if not out else [*out, _UNK]
                out.extend(ps)
            return out
    if isinstance(e, ast.Attribute):
        # a field or read-only property of a record object whose construction is visible (statement text derived from a table description)
        obj = _obj_of(ctx, fi, e.value, consts)
        if obj is not None:
            ps = _obj_attr_patterns(ctx, obj, e.attr, depth + 1)
            if ps is not None:
                return ps
    if isinstance(e, ast.Subscript) and not isinstance(e.slice, ast.Slice):
        table = None
        if isinstance(e.value, ast.Attribute) and isinstance(e.value.value, ast.Name) and e.value.value.id in ("self", "cls") and fi.cls is not None:
            table = fi.cls.lookup_attr(e.value.attr)
        elif isinstance(e.value, ast.Attribute):
            c = ctx.repo.resolve_class_expr(fi.module, e.value.value)
            table = c.lookup_attr(e.value.attr) if c is not None else None
        elif isinstance(e.value, ast.Name):
            r = ctx.repo.resolve_name(fi.module, e.value.id) if not local_defs(fi, e.value.id) else None
            table = r[2] if isinstance(r, tuple) and r[0] == "const" else resolve(fi, e.value)
        if isinstance(table, ast.Dict) and all(k is not None for k in table.keys):
            keys = _str_patterns(ctx, fi, e.slice, consts, depth + 1)
            out = []
            for k, v in zip(table.keys, table.values):
                kv = const_value(k)
                if keys is not None and all(_UNK not in t for t in keys) and kv not in keys:
                    continue
                ps = _str_patterns(ctx, fi, v, consts, depth + 1)
                if ps is None:
                    return None
                out.extend(ps)
            return out or None
        return None
    if isinstance(e, (ast.Name, ast.Attribute)):
        try:
            v = ctx.repo.resolve_const(fi.module, e, fi.cls)
        except Exception:  # noqa: BLE001
            v = NOCONST
        return [v] if isinstance(v, str) else None
    return None


def _sql_writes(ctx: Ctx, fi: FuncInfo, table: str, consts: dict | None = None, depth: int = 0, seen=()) -> list:
    """(function, node, SQL text in upper case with single blanks) of every statement text in fi, or in a helper fi calls, that writes `table`."""
    consts = consts or {}
    out = []
    doc = fi.node.body[0].value if fi.node.body and isinstance(fi.node.body[0], ast.Expr) and isinstance(fi.node.body[0].value, ast.Constant) else None
    cands = [n for n in ast.walk(fi.node) if isinstance(n, ast.Constant) and isinstance(n.value, str) and n is not doc
             and not isinstance(parent(n), (ast.JoinedStr, ast.FormattedValue, ast.BinOp))]
    cands += [a for c in calls(fi, nested=True) for a in [*c.args, *[k.value for k in c.keywords]] if not isinstance(a, (ast.Constant, ast.Starred))]
    cands += [n.value for n in ast.walk(fi.node) if isinstance(n, (ast.Assign, ast.AnnAssign)) and n.value is not None and not isinstance(n.value, ast.Constant)]
    texts = set()
    for n in cands:
        for v in _str_patterns(ctx, fi, n, consts) or []:
            sql = " ".join(v.upper().split())
            if (f"INTO {table.upper()}" in sql or f"INTO {_UNK}" in sql) and sql not in texts:
                texts.add(sql)
                out.append((fi, n, sql))
    if depth < 3:
        for c in calls(fi):
            fr = _follow(ctx, fi, c, "q_")
            if fr is None or fr.hf.node in seen or fr.hf.node is fi.node:
                continue
            if not (fr.hf.cls is not None and fr.hf.module is fi.module) and not _is_new(fr.hf):
                continue                          # only helpers of the database module itself or new ones (not the generic execute())
            sub = {}
            for name, a in fr.bind.items():
                ps = _str_patterns(ctx, fi, a, consts)
                if ps is not None:
                    sub[name] = ps
                else:
                    obj = _obj_of(ctx, fi, a, consts)
                    if obj is not None:
                        sub[name] = obj
            out.extend(_sql_writes(ctx, fr.hf, table, sub, depth + 1, (*seen, fi.node)))
    return out


def rule_attested_memory(ctx: Ctx) -> None:
    """
    The 'already attested' refusal of should_sign asks the database for attestations over the STORED metadata of the
    token (get_credentials -> get_attestations_over(metadata)).  That memory is only as good as the rows are permanent:
    Metadata is keyed (public_key, token_pointer) and Attestations (public_key, metadata_pointer), so an insert that
    replaces an existing row lets a re-issued metadata (other hash, no attestation over it yet) take the place of the
    attested one and the same registered attribute is signed again within the five minutes.  First write must win.
    """
    repo = ctx.repo
    for meth, table in (("insert_metadata", "Metadata"), ("insert_attestation", "Attestations")):
        fi = _method(ctx, "IdentityDatabase", meth, ID)
        texts = _sql_writes(ctx, fi, table)
        if not texts:
            raise AnalysisError(f"anchor-lost: no SQL statement writing table {table} found in IdentityDatabase.{meth}")
        for owner, n, sql in texts:
            sql = sql.replace(_UNK, "?")
            keeps = sql.startswith("INSERT OR IGNORE INTO") or ("ON CONFLICT" in sql and "DO NOTHING" in sql and "DO UPDATE" not in sql)
            replaces = sql.startswith(("REPLACE", "INSERT OR REPLACE")) or "DO UPDATE" in sql
            if not keeps and not replaces:
                raise AnalysisError(f"undecided: conflict behaviour of `{sql[:60]}` in IdentityDatabase.{meth}")
            ctx.check(keeps, "should-sign", owner, enclosing_stmt(n) if not isinstance(n, ast.stmt) else n,
                      f"{meth}: a stored {table} row is never replaced (first write wins), so the 'already attested' memory stays attached to the attested metadata",
                      f"IdentityDatabase.{meth} replaces an existing {table} row: re-issued metadata for an already attested token displaces the attested one, "
                      "should_sign's 'already attested' lookup finds nothing for it and the same registered attribute is attested again")


def _table_definition(text: str, table: str):
    """
    (columns, primary key) of `CREATE TABLE [IF NOT EXISTS] <table> (...)` inside an SQL script, both as lists of names in the
    script's own spelling; primary key None when the table declares none.  None when the script does not create the
    table; raises ValueError when the definition cannot be read (unknown text inside it, unbalanced parentheses).
    """
    import re
    m = re.search(r"CREATE\s+(?:TEMP(?:ORARY)?\s+)?TABLE\s+(?:IF\s+NOT\s+EXISTS\s+)?[\"`\[]?" + re.escape(table) + r"[\"`\]]?\s*\(", text, re.IGNORECASE)
    if m is None:
        return None
    depth, i, items, cur = 1, m.end(), [], ""
    while i < len(text) and depth:
        ch = text[i]
        if ch == "(":
            depth += 1
        elif ch == ")":
            depth -= 1
            if depth == 0:
                break
        if ch == "," and depth == 1:
            items.append(cur)
            cur = ""
        else:
            cur += ch
        i += 1
    if depth:
        raise ValueError("unbalanced parentheses")
    items.append(cur)
    if any(_UNK in it for it in items):
        raise ValueError("a part of the definition is only known at run time")
    columns, pk = [], None

    def names(inner: str) -> list[str]:
        return [re.sub(r"\s+(ASC|DESC)$", "", x.strip().strip("\"`[]"), flags=re.IGNORECASE) for x in inner.split(",") if x.strip()]
    for it in items:
        it = " ".join(it.split())
        if not it:
            continue
        up = it.upper()
        c = re.match(r"(?:CONSTRAINT\s+\S+\s+)?PRIMARY\s+KEY\s*\((.*)\)", it, re.IGNORECASE)
        if c is not None:
            if pk is not None:
                raise ValueError("two primary keys")
            pk = names(c.group(1))
            continue
        if re.match(r"(?:CONSTRAINT\s+\S+\s+)?(UNIQUE|CHECK|FOREIGN\s+KEY)\b", up):
            continue
        col = it.split()[0].strip("\"`[]")
        columns.append(col)
        if re.search(r"\bPRIMARY\s+KEY\b", up):
            if pk is not None:
                raise ValueError("two primary keys")
            pk = [col]
    return columns, pk


def rule_own_attestation_recorded(ctx: Ctx) -> None:  # noqa: C901, PLR0912, PLR0915
    """
    should_sign's "already attested" test reads the attestations STORED over the metadata and looks for one whose
    authority is us.  It can only refuse a replay if our own attestation is always stored.  insert_attestation resolves
    a primary-key conflict silently (INSERT OR IGNORE / OR REPLACE / ON CONFLICT), so the row of an attestation by
    ANOTHER authority for the same key columns either keeps ours out or is displaced by ours - unless the authority is
    part of the key.  Decided on the source: the CREATE TABLE text of get_schema, the INSERT text of insert_attestation.
    """
    import re
    _use(ctx)
    table = "Attestations"
    schema_fi = _method(ctx, "IdentityDatabase", "get_schema", ID)
    ins = _method(ctx, "IdentityDatabase", "insert_attestation", ID)
    ga = _method(ctx, "IdentityDatabase", "get_authority", ID)
    # 1. the table definition
    definitions = []
    rets = [r for r in walk_no_nested(schema_fi.node) if isinstance(r, ast.Return) and r.value is not None]
    for r in rets:
        texts = _str_patterns(ctx, schema_fi, r.value, {})
        if texts is None:
            raise AnalysisError(f"undecided: the schema text returned by IdentityDatabase.get_schema (`{norm(r.value)[:60]}`) cannot be read")
        for t in texts:
            try:
                d = _table_definition(t, table)
            except ValueError as ex:
                raise AnalysisError(f"undecided: CREATE TABLE {table} in IdentityDatabase.get_schema cannot be read: {ex}") from ex
            if d is not None:
                definitions.append(d)
    if not definitions:
        raise AnalysisError(f"undecided: no CREATE TABLE {table} found in the text returned by IdentityDatabase.get_schema")
    if any(([c.lower() for c in d[0]], None if d[1] is None else [c.lower() for c in d[1]]) != ([c.lower() for c in definitions[0][0]], None if definitions[0][1] is None else [c.lower() for c in definitions[0][1]])
           for d in definitions[1:]):
        raise AnalysisError(f"undecided: IdentityDatabase.get_schema can return different definitions of table {table}")
    columns, pk = definitions[0]
    lower_columns = [c.lower() for c in columns]
    if pk is not None and any(k.lower() not in lower_columns for k in pk):
        raise AnalysisError(f"undecided: PRIMARY KEY of table {table} names a column the table does not declare")
    # 2. how insert_attestation resolves a key conflict
    writes = _sql_writes(ctx, ins, table)
    if not writes:
        raise AnalysisError(f"anchor-lost: no SQL statement writing table {table} found in IdentityDatabase.insert_attestation")
    silent = False
    listed: list = []
    for _owner, _n, sql in writes:
        if sql.startswith(("INSERT OR IGNORE", "INSERT OR REPLACE", "REPLACE")) or "ON CONFLICT" in sql:
            silent = True
        elif not sql.startswith(("INSERT INTO", "INSERT OR ABORT", "INSERT OR FAIL", "INSERT OR ROLLBACK")):
            raise AnalysisError(f"undecided: conflict behaviour of `{sql[:60].replace(_UNK, '?')}` in IdentityDatabase.insert_attestation")
        m = re.search(r"INTO\s+" + table.upper() + r"\s*\(([^()]*)\)", sql)
        if m is not None and _UNK not in m.group(1):
            listed.append([c.strip().strip("\"`[]").lower() for c in m.group(1).split(",")])
    # 3. the column that holds the authority: the one insert_attestation fills from its authority parameter, and the one get_authority reads back
    by_insert = None
    authority_param = ins.params()[2] if len(ins.params()) > 2 else None
    if authority_param is not None and not local_defs(ins, authority_param):
        for t in walk_no_nested(ins.node):
            if isinstance(t, ast.Tuple) and isinstance(t.ctx, ast.Load) and not any(isinstance(e, ast.Starred) for e in t.elts):
                hits = [i for i, e in enumerate(t.elts) if any(isinstance(x, ast.Name) and x.id == authority_param for x in ast.walk(_expand(ins, e)))]
                for cols in listed:
                    if len(cols) == len(t.elts) and len(hits) == 1:
                        if by_insert not in (None, cols[hits[0]]):
                            raise AnalysisError("undecided: IdentityDatabase.insert_attestation binds its authority parameter to different columns")
                        by_insert = cols[hits[0]]
    by_reader = None
    doc = ga.node.body[0].value if ga.node.body and isinstance(ga.node.body[0], ast.Expr) and isinstance(ga.node.body[0].value, ast.Constant) else None
    for n in ast.walk(ga.node):
        if isinstance(n, (ast.Constant, ast.JoinedStr, ast.BinOp)) and n is not doc and not isinstance(parent(n), (ast.JoinedStr, ast.FormattedValue, ast.BinOp)):
            for t in _str_patterns(ctx, ga, n, {}) or []:
                m = re.match(r"\s*SELECT\s+([\"`\[]?\w+[\"`\]]?)\s+FROM\s+" + table + r"\b", " ".join(t.split()), re.IGNORECASE)
                if m is not None:
                    col = m.group(1).strip("\"`[]").lower()
                    if by_reader not in (None, col):
                        raise AnalysisError("undecided: IdentityDatabase.get_authority reads different columns")
                    by_reader = col
    if by_insert is not None and by_reader is not None and by_insert != by_reader:
        raise AnalysisError(f"undecided: insert_attestation stores the authority in column {by_insert}, get_authority reads it from column {by_reader}")
    authority = by_insert or by_reader
    if authority is None or authority not in lower_columns:
        raise AnalysisError(f"undecided: the column of table {table} that holds the authority of an attestation could not be derived from "
                            "insert_attestation's bindings or get_authority's SELECT")
    keyed = pk is None or not silent or authority in [k.lower() for k in pk]
    construct = f"{table} PRIMARY KEY ({', '.join(pk)})" if pk is not None else f"{table} without PRIMARY KEY"
    ctx.check(keyed, "own-attestation-recorded", schema_fi, construct,
              f"our own attestation is always stored: the key of table {table} includes the authority column `{authority}` (or a key conflict is not resolved silently)",
              f"table {table} is keyed by ({', '.join(pk or [])}) - the authority column `{authority}` is not part of the key - and insert_attestation resolves a key conflict silently: "
              "a disclosure that carries a valid attestation by ANY other authority occupies the row first, our own attestation is dropped on insert, should_sign's "
              "'already attested' scan over get_attestations_over(metadata) never finds an attestation by us, and every replay of the disclosure within the 300 s window is attested again")


# ------------------------------------------------------------------------------------ attesting
def _reg_field(x: ast.AST | None, entries, lay: dict, field: str) -> bool:
    """x reads `field` of a registration spelled as one of `entries`: by position, or by the attribute name when registrations are records"""
    if isinstance(x, ast.Subscript) and norm(x.value) in entries:
        return const_value(x.slice) == lay[field] and not isinstance(const_value(x.slice), bool)
    return isinstance(x, ast.Attribute) and norm(x.value) in entries and lay["#attrs"].get(field) == x.attr


def _selection(e: ast.AST | None, lay: dict[str, int], peerkey: str):
    """
    e is a comprehension over the registration table.  Returns (where, elt) with where = "elt" when the element itself is
    the test `registered subject key == sender's key`, "if" when one of the filters is that test, "key" when the element
    is the registered subject key (unfiltered); None when e is not such a comprehension.
    """
    table = "self.known_attestation_hashes"
    if isinstance(e, ast.Call) and chain(e.func) == "map" and len(e.args) == 2 and not e.keywords and norm(e.args[1]) == f"{table}.values()":
        # map(itemgetter(<key position>), table.values()) / map(lambda t: t[<key position>], table.values()): the registered subject keys
        f = strip_cast(e.args[0])
        pos = None
        if isinstance(f, ast.Call) and _lib(chain(f.func)) == "itemgetter" and len(f.args) == 1 and not f.keywords:
            pos = const_value(f.args[0])
        elif isinstance(f, ast.Call) and _lib(chain(f.func)) == "attrgetter" and len(f.args) == 1 and not f.keywords and lay["#attrs"].get("public_key") is not None:
            pos = lay["public_key"] if const_value(f.args[0]) == lay["#attrs"]["public_key"] else None
        elif isinstance(f, ast.Lambda) and len(f.args.args) == 1 and not (f.args.posonlyargs or f.args.vararg or f.args.kwarg or f.args.kwonlyargs) \
                and _reg_field(f.body, [f.args.args[0].arg], lay, "public_key"):
            pos = lay["public_key"]
        return "key" if pos == lay["public_key"] and not isinstance(pos, bool) else None
    if not isinstance(e, (ast.GeneratorExp, ast.ListComp, ast.SetComp, ast.DictComp)) or len(e.generators) != 1:
        return None
    g = e.generators[0]
    if g.is_async:
        return None
    it = norm(g.iter)
    entry: list[str] = []                       # spellings of "the registration this iteration looks at"
    if it == f"{table}.values()" and isinstance(g.target, ast.Name):
        entry = [g.target.id]
    elif it == f"{table}.items()" and isinstance(g.target, ast.Tuple) and len(g.target.elts) == 2 and all(isinstance(t, ast.Name) for t in g.target.elts):
        entry = [g.target.elts[1].id, f"{table}[{g.target.elts[0].id}]"]
    elif it in (table, f"{table}.keys()", f"list({table})", f"list({table}.keys())") and isinstance(g.target, ast.Name):
        entry = [f"{table}[{g.target.id}]", f"{table}.get({g.target.id})"]
    else:
        return None

    def reg_key(x: ast.AST) -> bool:
        return _reg_field(x, entry, lay, "public_key")

    def test(c: ast.AST) -> bool:
        if isinstance(c, ast.Compare) and len(c.ops) == 1 and isinstance(c.ops[0], ast.Eq):
            a, b = c.left, c.comparators[0]
            return (reg_key(a) and norm(b) == peerkey) or (reg_key(b) and norm(a) == peerkey)
        return False
    if any(test(c) for c in g.ifs):
        return "if"
    if isinstance(e, ast.DictComp):
        return "key" if reg_key(e.key) and not g.ifs else None        # an index of the registrations by subject key
    if test(e.elt):
        return "elt"
    if reg_key(e.elt) and not g.ifs:
        return "key"
    return None


def _solicited_fact(f: Fact, lay: dict[str, int], peerkey: str) -> bool:  # noqa: C901, PLR0911
    """The (fully expanded) fact says: some registration's subject key equals the sender's key."""
    def unwrap(e: ast.AST) -> ast.AST:
        while isinstance(e, ast.Call) and chain(e.func) in ("list", "tuple", "set", "frozenset", "sorted") and len(e.args) == 1 and not e.keywords:
            e = e.args[0]
        return e

    def selected(e: ast.AST, *, sized: bool) -> bool:
        """e holds exactly the registrations (or things made one per registration) of the sender; sized: e is a container, not a lazy generator"""
        inner = unwrap(e)
        if sized and inner is e and isinstance(e, ast.GeneratorExp):
            return False
        return _selection(inner, lay, peerkey) == "if"
    e = f.left
    if f.op == "truthy" and f.pos:
        if isinstance(e, ast.Call) and chain(e.func) == "any" and len(e.args) == 1 and not e.keywords:
            kind = _selection(unwrap(e.args[0]), lay, peerkey)
            if kind == "elt":
                return True
            return kind == "if" and const_value(getattr(unwrap(e.args[0]), "elt", None)) is True
        return selected(e, sized=True)
    # len(selection) > 0, != 0, >= 1
    def len_sel(x: ast.AST | None) -> bool:
        return isinstance(x, ast.Call) and chain(x.func) == "len" and len(x.args) == 1 and not x.keywords and selected(x.args[0], sized=True)

    def num(x: ast.AST | None, v: int) -> bool:
        return x is not None and const_value(x) == v and not isinstance(const_value(x), bool)
    if f.op == "eq" and not f.pos and ((len_sel(f.left) and num(f.right, 0)) or (len_sel(f.right) and num(f.left, 0))):
        return True
    if f.op == "lt" and f.pos and num(f.left, 0) and len_sel(f.right):            # 0 < len
        return True
    if f.op == "lt" and not f.pos and len_sel(f.left) and num(f.right, 1):        # not (len < 1)
        return True
    if f.op == "in" and f.pos and norm(f.left) == peerkey:
        return _selection(unwrap(f.right), lay, peerkey) == "key"
    if f.op == "is" and not f.pos and const_value(f.right) is None and isinstance(e, ast.Call) and chain(e.func) == "next" and len(e.args) == 2 \
            and const_value(e.args[1]) is None and not e.keywords:
        return _selection(e.args[0], lay, peerkey) == "if"
    return False


def _loop_entries(hf: FuncInfo, lay: dict, told=None) -> tuple:
    """
    (entries, keys): spellings of "a registration taken from the table" and names of "the subject key of a registration
    taken from the table" inside hf - the targets of its for loops over the registration table (values / items / keys,
    or a lazy selection of the registered subject keys), each a local that nothing else assigns.  told(e): the
    canonical text of an expression of hf in the terms the table is spelled in (default: hf's own).
    """
    table = "self.known_attestation_hashes"
    told = told or (lambda e: _x(hf, e))
    entries: set[str] = set()
    keys: set[str] = set()
    for l in walk_no_nested(hf.node):
        if not isinstance(l, ast.For):
            continue
        names = [n.id for n in ast.walk(l.target) if isinstance(n, ast.Name)]
        if any(len(local_defs(hf, n)) != 1 or n in hf.params() for n in names):
            continue
        it = told(l.iter)
        if it == f"{table}.values()" and isinstance(l.target, ast.Name):
            entries.add(l.target.id)
        elif it == f"{table}.items()" and isinstance(l.target, ast.Tuple) and len(l.target.elts) == 2 and all(isinstance(t, ast.Name) for t in l.target.elts):
            entries |= {l.target.elts[1].id, f"{table}[{l.target.elts[0].id}]"}
        elif it in (table, f"{table}.keys()", f"list({table})", f"list({table}.keys())") and isinstance(l.target, ast.Name):
            entries.add(f"{table}[{l.target.id}]")
        elif isinstance(l.target, ast.Name):
            # for key in (t[<key position>] for t in table.values()) - spelled inline, as map(...), or by a generator helper
            try:
                sel = _unwrapped_iter(ast.parse(it, mode="eval").body)
            except SyntaxError:
                continue
            if _selection(sel, lay, "\x00no sender\x00") == "key":
                keys.add(l.target.id)
    return entries, keys


def _loop_eq(hf: FuncInfo, f: Fact, entries: set, keys: set, lay: dict, is_peerkey) -> bool:
    """the fact says: the subject key of a registration the loop took from the table equals the sender's key"""
    if f.op != "eq" or not f.pos:
        return False
    for a, b in ((f.left, f.right), (f.right, f.left)):
        a2 = _expand(hf, a, ("self.known_attestation_hashes",))
        if (_reg_field(a2, entries, lay, "public_key") or (isinstance(strip_cast(a), ast.Name) and strip_cast(a).id in keys)) and is_peerkey(b):
            return True
    return False


def _solicited_call(ctx: Ctx, fi: FuncInfo, call: ast.AST, lay: dict[str, int], peerkey: str, depth: int = 0, *, outcome=None, path: tuple = ()) -> bool:  # noqa: C901, PLR0913
    """
    `call` is a helper of the own class that hands back something truthy (or, with outcome=(sat, truth, key) and path,
    a value whose component `path` passes that test) only if some registration's subject key equals the sender's key:
    every such return is either such an expression itself or is reached only after the comparison
    `entry[<key position>] == <sender's key>` succeeded for an entry the helper took from the registration table in a loop.
    """
    fr = _follow(ctx, fi, call, f"o{depth + 1}_")
    if fr is None or depth > 2:
        return False
    hf = fr.hf
    table = "self.known_attestation_hashes"
    entries, keys = _loop_entries(hf, lay, lambda e: _x(fi, fr.lift(e)))

    def loop_eq(f: Fact) -> bool:
        return _loop_eq(hf, f, entries, keys, lay, lambda b: _x(fi, fr.lift(b)) == peerkey)

    def says(f: Fact) -> bool:
        if loop_eq(f):
            return True
        a, q = _pair_of(f)
        la = _expand(fi, fr.lift(a))
        if _solicited_fact(fact_of(la, q), lay, peerkey):
            return True
        return False
    exits = _approving_exits(ctx, hf) if outcome is None else _approving_exits(ctx, hf, *outcome, path=path, feasible_only=True)
    return bool(exits) and all(p.holds(says) for p in exits)


def _solicited_expr(e: ast.AST | None, lay: dict[str, int], peerkey: str) -> bool:
    """e (truthy) says: some registration's subject key equals the sender's key."""
    return e is not None and any(_solicited_fact(f, lay, peerkey) for f in (_atoms_with_polarity(e, True) or [fact_of(e, True)]))


def _tuple_elem(fi: FuncInfo, e: ast.AST | None):
    """(producer expression, position) when e is one element of an unpacked / indexed call result."""
    e = strip_cast(e) if e is not None else None
    if isinstance(e, ast.Name):
        d = single_def(fi, e.id)
        if d is not None and d[1] is not None:
            return resolve(fi, d[0]), d[1]
        if d is not None:
            return _tuple_elem(fi, d[0])
    if isinstance(e, ast.Subscript) and isinstance(const_value(e.slice), int):
        return resolve(fi, e.value), const_value(e.slice)
    return None, None


def _effective_call(fi: FuncInfo, c: ast.Call) -> ast.Call:
    """
    c itself, or - when the callee is a functools.partial object made in fi (`send = partial(self.ez_send, peer)` ...
    `send(x)`) - the call it amounts to, frozen arguments first.  The returned node stands at c's place (same parent, same
    position), so that paths, facts and findings are those of c.
    """
    f = strip_cast(c.func)
    made = resolve(fi, f) if isinstance(f, ast.Name) else f if isinstance(f, ast.Call) else None
    if not (isinstance(made, ast.Call) and _lib(chain(made.func)) == "partial" and made.args and not any(isinstance(a, ast.Starred) for a in made.args)
            and all(k.arg is not None for k in made.keywords)):
        return c
    eff = ast.copy_location(ast.Call(func=made.args[0], args=[*made.args[1:], *c.args], keywords=[*made.keywords, *c.keywords]), c)
    eff._parent = parent(c)  # noqa: SLF001
    return eff


def _sites_below(ctx: Ctx, fi: FuncInfo, want) -> list:
    """
    The calls accepted by want(call) in fi and in the own-class private helpers fi calls (transitively), each with what
    is known when it is reached, told in fi's name space: (owner function, call, [Fact], lift) where lift rewrites an
    expression of the owner into fi's terms.
    """
    return [t[:4] for t in _sites_below_ex(ctx, fi, want)]


def _sites_below_ex(ctx: Ctx, fi: FuncInfo, want, *, lift=None, outer=(), trail=(), depth: int = 0, seen=()) -> list:
    """as _sites_below, with a fifth component: the feasible-path objects the site lies behind, outermost first, as (_Paths, lift) pairs"""
    lift = lift or (lambda e: e)
    out = []

    def wanted(c: ast.Call) -> bool:
        if want(c):
            return True
        # told in the handler's terms (a helper object reaches the community through what it was constructed with)
        return depth > 0 and bool(want(ast.Call(func=lift(c.func), args=c.args, keywords=c.keywords)))
    for c in calls(fi):
        eff = _effective_call(fi, c)
        if wanted(eff):
            p = _Paths(ctx, fi, c)
            out.append((fi, eff, [*outer, *[fact_of(lift(a), q) for a, q in p.all_pairs()]], lift, (*trail, (p, lift))))
            continue
        if depth >= 3:
            continue
        fr = _follow(ctx, fi, c, f"s{depth + 1}_", generators=True)
        if fr is None or not _private_helper(fi, fr) or fr.hf.node in seen:
            continue
        if fr.self_expr is None and fr.hf.cls is not None and not any(want(x) for x in _calls_deep(ctx, fr.hf, 3 - depth)):
            continue                              # (a function that is handed the community spells the wanted calls in its own terms: it is always looked into)
        p = _Paths(ctx, fi, c)
        here = [*outer, *[fact_of(lift(a), q) for a, q in p.all_pairs()]]
        out.extend(_sites_below_ex(ctx, fr.hf, want, lift=lambda e, fr=fr, lift=lift: lift(fr.lift(e)), outer=here, trail=(*trail, (p, lift)),
                                   depth=depth + 1, seen=(*seen, fi.node)))
    return out


def _calls_deep(ctx: Ctx, fi: FuncInfo, depth: int) -> list:
    out = list(calls(fi))
    if depth > 0:
        for c in list(out):
            fr = _follow(ctx, fi, c, "x_", generators=True)
            if fr is not None and _private_helper(fi, fr):
                out.extend(_calls_deep(ctx, fr.hf, depth - 1))
    return out


def _plain_reference(e: ast.AST) -> bool:
    """a name / attribute / constant-subscript chain: evaluating it twice names the same object (nothing is computed)"""
    while isinstance(e, (ast.Attribute, ast.Subscript)):
        if isinstance(e, ast.Subscript) and const_value(e.slice) is NOCONST:
            return False
        e = strip_cast(e.value)
    return isinstance(e, ast.Name)


def _substantiated_as_received(fi: FuncInfo, call: ast.Call, peer: str) -> bool:
    """
    substantiate(<sender>.public_key, <the received disclosure>): the key is the authenticated sender's, and the
    serialized parts are what the handler was given - expressions over its never-rebound parameters (one tuple
    parameter spread with *, or one parameter per part), nothing the node keeps itself.
    """
    if any(k.arg is None for k in call.keywords) or not call.args or isinstance(call.args[0], ast.Starred):
        return False
    key = arg(call, 0, "public_key")
    if key is None or _x(fi, key) != f"{peer}.public_key":
        return False
    rest = [a.value if isinstance(a, ast.Starred) else a for a in call.args[1:]] + [k.value for k in call.keywords if k.arg != "public_key"]
    if not rest:
        return False
    params = set(fi.params()) - {"self", peer}
    for a in rest:
        e = _expand(fi, a)
        bound = {x for n in ast.walk(e) if isinstance(n, (ast.ListComp, ast.SetComp, ast.DictComp, ast.GeneratorExp)) for x in _comp_bound(n)}
        for n in ast.walk(e):
            if isinstance(n, ast.Name) and n.id not in bound and n.id not in ("cast", "bytes", "tuple", "list") \
                    and (local_defs(fi, n.id) or n.id not in params):
                return False
            if isinstance(n, ast.Call) and chain(n.func) not in ("cast", "bytes", "tuple", "list"):
                return False
    return True


def _origin(ctx: Ctx, fi: FuncInfo, e: ast.AST | None, path: tuple = (), depth: int = 0) -> tuple:  # noqa: C901, PLR0911
    """
    (call, path): the value of e.<path> is component `path` of what `call` returned - followed through single-assignment
    locals, tuple unpacking, visible constructions (tuple displays, result objects) and own private helpers that hand the
    value on.  The call is one whose callee is not read (another object's method).  (None, None) when e does not show this.
    """
    if e is None or depth > 10:
        return None, None
    e = strip_cast(e)
    if path:
        fe = _field_expr(fi, e, path[0])
        if fe is not None:
            return _origin(ctx, fi, fe, path[1:], depth + 1)
    if isinstance(e, ast.Name):
        d = single_def(fi, e.id) or _agreeing_defs(fi, e.id)
        if d is None:
            return None, None
        return _origin(ctx, fi, d[0], ((("idx", d[1]),) if d[1] is not None else ()) + tuple(path), depth + 1)
    step = _step_of(e) if isinstance(e, (ast.Attribute, ast.Subscript)) else None
    if step is not None and _global_const(fi, e) is NOCONST:
        return _origin(ctx, fi, e.value, (step, *path), depth + 1)
    if isinstance(e, ast.Call):
        fr = _follow(ctx, fi, e, f"g{depth + 1}_")
        if fr is not None and _private_helper(fi, fr):
            rets = [r for r in walk_no_nested(fr.hf.node) if isinstance(r, ast.Return)]
            falls = [u for u, lab in ctx.cfg(fr.hf).exit.pred if not isinstance(u.ast, ast.Return) and ctx.cfg(fr.hf).reachable(u)]
            got = {_origin(ctx, fr.hf, r.value, tuple(path), depth + 1) for r in rets} if rets and not falls else {(None, None)}
            return next(iter(got)) if len(got) == 1 else (None, None)
        return e, tuple(path)
    return None, None


def _consent_filtered(ctx: Ctx, owner: FuncInfo, it: ast.AST | None, is_pseudonym, depth: int = 0) -> str | None:  # noqa: C901, PLR0911, PLR0912
    """
    Every element x the iterable `it` of owner yields has passed self.should_sign(<the substantiated pseudonym>, x<suffix>):
    the suffix ("" for the element itself, ".metadata" for its metadata ...) is returned, "*" when nothing is yielded at
    all, None when the iterable is not known to be filtered like that.  Read: a comprehension / filter() / takewhile()
    filtered by that call, a selection or copy of such (islice, list, sorted ...), an empty display, or a local that only
    ever holds such values and is not changed in place.
    """
    it = strip_cast(it) if it is not None else None
    if it is None or depth > 6:
        return None
    if _empty_display(it):
        return "*"

    def consent(c: ast.AST, elt: ast.AST) -> str | None:
        """suffix such that condition c includes should_sign(pseudonym, <elt><suffix>)"""
        c = strip_cast(c)
        if isinstance(c, ast.BoolOp) and isinstance(c.op, ast.And):
            return next((r for r in (consent(v, elt) for v in c.values) if r is not None), None)
        if not (isinstance(c, ast.Call) and chain(c.func) == "self.should_sign" and len(c.args) == 2 and not c.keywords and not any(isinstance(a, ast.Starred) for a in c.args)):
            return None
        a1, et = strip_cast(c.args[1]), norm(strip_cast(elt))
        if not _plain_reference(a1) or not _plain_reference(strip_cast(elt)) or not is_pseudonym(c.args[0]):
            return None
        t = norm(a1)
        return "" if t == et else t[len(et):] if t.startswith(et + ".") else None

    def merged(parts: list) -> str | None:
        real = {x for x in parts if x != "*"}
        if any(x is None for x in parts) or len(real) > 1:
            return None
        return next(iter(real)) if real else "*"
    if isinstance(it, ast.Name):
        if it.id in owner.params() or not _only_read(owner, it.id):
            return None
        ds = local_defs(owner, it.id)
        if not ds or any(v is None or i is not None or not isinstance(st, (ast.Assign, ast.AnnAssign)) for st, v, i in ds):
            return None
        return merged([_consent_filtered(ctx, owner, v, is_pseudonym, depth + 1) for st, v, i in ds])
    if isinstance(it, (ast.ListComp, ast.SetComp, ast.GeneratorExp)) and len(it.generators) == 1 and not it.generators[0].is_async:
        g = it.generators[0]
        for c in g.ifs:
            r = consent(c, it.elt)
            if r is not None:
                return r
        # a plain pass-through of an already filtered iterable
        if isinstance(it.elt, ast.Name) and isinstance(g.target, ast.Name) and it.elt.id == g.target.id:
            return _consent_filtered(ctx, owner, g.iter, is_pseudonym, depth + 1)
        return None
    if isinstance(it, ast.Call) and not any(isinstance(a, ast.Starred) for a in it.args):
        f = _lib(chain(it.func))
        if f in ("list", "tuple", "iter", "sorted", "reversed", "set", "frozenset") and len(it.args) == 1:
            return _consent_filtered(ctx, owner, it.args[0], is_pseudonym, depth + 1)
        if f == "islice" and it.args and not it.keywords:
            return _consent_filtered(ctx, owner, it.args[0], is_pseudonym, depth + 1)
        if f in ("filter", "takewhile") and len(it.args) == 2 and not it.keywords:
            fn = resolve(owner, it.args[0])
            if isinstance(fn, ast.Call) and _lib(chain(fn.func)) == "partial" and len(fn.args) == 2 and not fn.keywords \
                    and chain(fn.args[0]) == "self.should_sign" and not isinstance(fn.args[1], ast.Starred) and is_pseudonym(fn.args[1]):
                return ""
            if isinstance(fn, ast.Lambda) and len(fn.args.args) == 1 and not (fn.args.posonlyargs or fn.args.vararg or fn.args.kwarg or fn.args.kwonlyargs):
                r = consent(fn.body, ast.Name(id=fn.args.args[0].arg, ctx=ast.Load()))
                if r is not None:
                    return r
            return _consent_filtered(ctx, owner, it.args[1], is_pseudonym, depth + 1)
    return None


def rule_attest(ctx: Ctx) -> None:  # noqa: C901, PLR0912, PLR0915
    _use(ctx)
    repo = ctx.repo
    lay = known_hash_layout(ctx)
    fi = _method(ctx, "IdentityCommunity", "_received_disclosure_for_attest", IC)
    peer = fi.params()[1]
    peerkey = _c(f"{peer}.public_key.key_to_bin()")
    stable = not any(local_defs(fi, x) for x in fi.params()[1:3])

    def is_create(c: ast.Call) -> bool:
        return call_name(c) == "create_attestation"

    def is_send(c: ast.Call) -> bool:
        return chain(c.func) == "self.ez_send" and mentions(c, "AttestPayload")
    found = _sites_below_ex(ctx, fi, lambda c: is_create(c) or is_send(c))
    ctx.floor("attest-only-if-consented", len(found), 2)
    # the one place where the disclosure is loaded (in the handler or in a private helper it calls), in the handler's terms
    subs = _sites_below_ex(ctx, fi, lambda c: chain(c.func) == "self.identity_manager.substantiate")
    sub = subs[0][1] if subs else None
    ok_sub = False
    if stable and len(subs) == 1:
        lf = subs[0][3]
        told = ast.Call(func=sub.func, args=[ast.Starred(value=lf(a.value), ctx=ast.Load()) if isinstance(a, ast.Starred) else lf(a) for a in sub.args],
                        keywords=[ast.keyword(arg=k.arg, value=lf(k.value)) for k in sub.keywords])
        ok_sub = _substantiated_as_received(fi, told, peer)
    ctx.check(ok_sub, "attest-only-if-consented", fi, fi.node, "disclosure substantiated under the authenticated sender's key", "the disclosure is validated under a key other than the sender's")
    everywhere = _Paths(ctx, fi, ctx.cfg(fi).exit)
    nostate = tuple([-1] * len(everywhere.tracked))

    # substantiate may hand back a positional result object instead of a bare pair: its fields also name the two components
    sb = _method(ctx, "IdentityManager", "substantiate", IM)
    sb_rets = [r for r in walk_no_nested(sb.node) if isinstance(r, ast.Return)]
    sb_rv = resolve(sb, sb_rets[0].value) if len(sb_rets) == 1 else None
    sb_rf = _record_fields(sb.module, sb_rv.func) if isinstance(sb_rv, ast.Call) else None
    sb_names = [n for n, _d in sb_rf[0]] if sb_rf is not None and sb_rf[1] and len(sb_rf[0]) == 2 else [None, None]

    def from_sub(e: ast.AST | None, pos: int, where: FuncInfo | None = None) -> bool:
        """e (an expression of `where`, default the handler) is component pos of what the one substantiate call returned"""
        call, path = _origin(ctx, where or fi, e)
        return sub is not None and call is sub and path in ((("idx", pos),), (("attr", sb_names[pos]),))

    def solicited_eval(e: ast.AST) -> bool:
        """evaluating e raises unless some registration's subject key equals the sender's key"""
        e = _expand(fi, e)
        if isinstance(e, ast.Call) and chain(e.func) == "next" and len(e.args) == 1 and not e.keywords:
            return _selection(_unwrapped_iter(e.args[0]), lay, peerkey) == "if"
        if isinstance(e, ast.Subscript) and isinstance(e.ctx, ast.Load) and norm(e.slice) == peerkey:
            return isinstance(e.value, ast.DictComp) and _selection(e.value, lay, peerkey) == "key"
        if isinstance(e, ast.Call) and isinstance(e.func, ast.Attribute) and e.func.attr == "index" and len(e.args) == 1 and not e.keywords and norm(e.args[0]) == peerkey:
            return _selection(_unwrapped_iter(e.func.value), lay, peerkey) == "key"
        return False
    approved: dict = {}
    own_entries, own_keys = _loop_entries(fi, lay)
    for owner, s, fs, lift, trail in found:
        sol = cor = ss_ok = False
        for f in fs:
            e = _expand(fi, f.atom)
            outcome_of = _pair_of(f)[1]
            fe = fact_of(e, outcome_of)
            via = _simple_callee_value(ctx, fi, e)
            if _solicited_fact(fe, lay, peerkey) or (f.pos and via is not None and _solicited_expr(via, lay, peerkey)):
                sol = True
            elif stable and _loop_eq(fi, f, own_entries, own_keys, lay, lambda b: _x(fi, b) == peerkey):
                # the handler itself scanned the registrations and got past the comparison with the sender's key (for / else, flag, early return)
                sol = True
            elif not sol:
                # a verdict of a helper (a flag, an Enum member, a field of a result object) that is only produced for a solicited sender
                subj, sat, truth, tk = _subject(f.atom, outcome_of, everywhere.gc)
                producer, path, _moved = everywhere._producer(subj, nostate)  # noqa: SLF001
                if isinstance(producer, ast.Call) and _solicited_call(ctx, fi, producer, lay, peerkey, outcome=(sat, truth, tk), path=tuple(path)):
                    sol = True
            if f.op == "truthy" and f.pos:
                if from_sub(f.left, 0):
                    cor = True
                r = resolve(fi, f.left)
                if isinstance(r, ast.Call) and chain(r.func) == "self.should_sign" and len(r.args) == 2 and not r.keywords and not any(isinstance(a, ast.Starred) for a in r.args):
                    steady = all(len(local_defs(fi, n.id)) <= 1 for n in ast.walk(r.args[1]) if isinstance(n, ast.Name))
                    if from_sub(r.args[0], 1) and steady and _plain_reference(strip_cast(r.args[1])):
                        ss_ok = True
                        approved[id(s)] = _x(fi, r.args[1])
        if owner.node is not fi.node and trail and not (cor and ss_ok):
            # the site lies in a helper that also loads the disclosure (the whole tail moved): the same two facts, read in the helper's own terms
            for a0, q0 in trail[-1][0].all_pairs():
                f = fact_of(a0, q0)
                if not (f.op == "truthy" and f.pos):
                    continue
                if from_sub(f.left, 0, owner):
                    cor = True
                r = resolve(owner, f.left)
                if isinstance(r, ast.Call) and chain(lift(r.func)) == "self.should_sign" and len(r.args) == 2 and not r.keywords and not any(isinstance(a, ast.Starred) for a in r.args):
                    steady = all(len(local_defs(owner, n.id)) <= 1 for n in ast.walk(r.args[1]) if isinstance(n, ast.Name))
                    if from_sub(r.args[0], 1, owner) and steady and _plain_reference(strip_cast(r.args[1])):
                        ss_ok = True
                        approved[id(s)] = _x(fi, lift(r.args[1]))
        if not sol:
            # the sender's registration is looked up in a way that raises when there is none
            sol = any(p.evaluates(lambda e, lf=lf: solicited_eval(lf(e))) for p, lf in trail)
        if not ss_ok:
            # the site works through a collection that was filtered by should_sign: consent is a property of each element
            for loop in [a for a in ancestors(s) if isinstance(a, (ast.For, ast.AsyncFor))]:
                tg = loop.target
                if not isinstance(tg, ast.Name) or len(local_defs(owner, tg.id)) != 1 or tg.id in owner.params():
                    continue
                suffix = _consent_filtered(ctx, owner, loop.iter, lambda e, lift=lift: from_sub(lift(e), 1))
                if suffix is not None:
                    # what was approved for this element: <loop variable><suffix> (nothing is attested from a collection that is always empty)
                    a0 = arg(s, 0, "metadata") if is_create(s) else None
                    if not is_create(s) or suffix == "*" or (a0 is not None and _plain_reference(strip_cast(a0)) and norm(strip_cast(a0)) == tg.id + suffix):
                        ss_ok = True
                        if is_create(s) and a0 is not None:
                            approved[id(s)] = _x(fi, lift(a0))
                        break
        ctx.check(sol and cor and ss_ok, "attest-only-if-consented", owner, s,
                  "attesting dominated by: solicited sender, correct substantiation, should_sign(pseudonym, credential.metadata)",
                  f"an attestation can be created/sent without the owner's consent checks (solicited={sol} correct={cor} should_sign={ss_ok})", [str(f) for f in fs])
    for owner, c, _fs, lift, _trail in found:
        if not is_create(c):
            continue
        a0, a1 = arg(c, 0, "metadata"), arg(c, 1, "private_key")
        ok = a0 is not None and a1 is not None and _x(fi, lift(a0)) == approved.get(id(c), "credential.metadata") and _x(fi, lift(a1)) == "self.my_peer.key"
        ctx.check(ok, "attest-only-if-consented", owner, c, "attestation is over the approved metadata, signed with our key", "the attestation is over other metadata than the approved one")
    _substantiate(ctx)


def _substantiate(ctx: Ctx) -> None:  # noqa: C901
    """
    The flag returned by substantiate is a conjunction: it starts as the verdict of tree.unserialize_public(tokens) of the
    given key's pseudonym and can only be lowered (&=) afterwards, and every add_attestation verdict is and-ed into it.
    Any other way of computing it (an `or` alternative, a reset to True, |=) lets a disclosure whose chain or attestations
    did not verify count as correct, and the caller signs on the strength of it.
    """
    sb = _localised(ctx.repo, _method(ctx, "IdentityManager", "substantiate", IM))
    cfg = ctx.cfg(sb)
    p = sb.params()
    pseudo = _c(f"self.get_pseudonym({p[1]})")
    _use(ctx)
    rets = [r for r in walk_no_nested(sb.node) if isinstance(r, ast.Return)]
    rv = resolve(sb, rets[0].value) if len(rets) == 1 else None
    if isinstance(rv, ast.Call) and (_record_fields(sb.module, rv.func) or (None, False))[1]:
        # a positional result object (NamedTuple): callers still unpack it as (flag, pseudonym)
        parts = [_field_expr(sb, rv, ("idx", i)) for i in range(len(_record_fields(sb.module, rv.func)[0]))]
        rv = ast.Tuple(elts=parts, ctx=ast.Load()) if all(x is not None for x in parts) else rv
    ok = isinstance(rv, ast.Tuple) and len(rv.elts) == 2 and not local_defs(sb, p[1]) and not local_defs(sb, p[3])
    why = "substantiate no longer returns (flag, pseudonym) from a single exit"
    listed: list[ast.AST] = []                    # verdicts appended to a list whose all(...) is (part of) the flag

    def verdict_list(e: ast.AST):
        """(elements of the display the list starts as, values appended later) for `all(<local list>)`, the list only ever being appended to; else None"""
        e = strip_cast(e)
        if not (isinstance(e, ast.Call) and chain(e.func) == "all" and len(e.args) == 1 and not e.keywords and isinstance(strip_cast(e.args[0]), ast.Name)):
            return None
        name = strip_cast(e.args[0]).id
        ds = local_defs(sb, name)
        if name in sb.params() or len(ds) != 1 or ds[0][2] is not None or not isinstance(strip_cast(ds[0][1]) if ds[0][1] is not None else None, ast.List):
            return None
        first, more = list(strip_cast(ds[0][1]).elts), []
        if any(isinstance(x, ast.Starred) for x in first):
            return None
        for n in ast.walk(sb.node):
            if isinstance(n, ast.Name) and n.id == name and isinstance(n.ctx, ast.Load) and n is not strip_cast(e.args[0]):
                par, call = parent(n), parent(parent(n))
                if isinstance(par, ast.Attribute) and par.attr == "append" and isinstance(call, ast.Call) and call.func is par and len(call.args) == 1 and not call.keywords \
                        and isinstance(parent(call), ast.Expr):
                    more.append(call.args[0])
                else:
                    return None
        return first, more

    def conjuncts(e: ast.AST) -> list:
        e = strip_cast(e)
        if isinstance(e, ast.BoolOp) and isinstance(e.op, ast.And):
            return [x for v in e.values for x in conjuncts(v)]
        if isinstance(e, ast.BinOp) and isinstance(e.op, ast.BitAnd):
            return [*conjuncts(e.left), *conjuncts(e.right)]
        if isinstance(e, ast.Call) and chain(e.func) == "bool" and len(e.args) == 1 and not e.keywords:
            return conjuncts(e.args[0])
        return [e]
    # the verdict is a conjunction of flags (locals); a multiply assigned local is a flag, a single-assignment one its definition
    flags: list[str] = []
    direct: list[ast.AST] = []
    if ok:
        todo = conjuncts(rv.elts[0])
        while todo:
            e = todo.pop()
            if isinstance(e, ast.Name) and e.id not in sb.params() and len(local_defs(sb, e.id)) == 1 and single_def(sb, e.id) is not None and single_def(sb, e.id)[1] is None:
                todo.extend(conjuncts(single_def(sb, e.id)[0]))
            elif isinstance(e, ast.Name) and local_defs(sb, e.id):
                if e.id not in flags:
                    flags.append(e.id)
            elif verdict_list(e) is not None:
                first, more = verdict_list(e)
                todo.extend(x for v in first for x in conjuncts(v))
                listed.extend(more)
            else:
                direct.append(e)
    if ok:
        def lowering(name: str, s, v):  # noqa: C901, PLR0911
            """("and", operand) when this definition and-s an operand into the flag, ("false", None) when it sets it to False, else None"""
            def is_flag(x) -> bool:
                return isinstance(x, ast.Name) and x.id == name
            if isinstance(s, ast.AugAssign):
                return ("and", s.value) if isinstance(s.op, ast.BitAnd) else None
            if v is None:
                return None
            v = strip_cast(v)
            if const_value(v) is False:
                return ("false", None)
            if isinstance(v, ast.BinOp) and isinstance(v.op, ast.BitAnd):
                if is_flag(v.left):
                    return ("and", v.right)
                if is_flag(v.right):
                    return ("and", v.left)
            if isinstance(v, ast.BoolOp) and isinstance(v.op, ast.And) and any(is_flag(x) for x in v.values):
                rest = [x for x in v.values if not is_flag(x)]
                return ("and", rest[0] if len(rest) == 1 else ast.BoolOp(op=ast.And(), values=rest)) if rest else None
            if isinstance(v, ast.IfExp):
                t, a, b = v.test, v.body, v.orelse
                while isinstance(t, ast.UnaryOp) and isinstance(t.op, ast.Not):
                    t, a, b = t.operand, b, a
                if is_flag(a) and const_value(b) is False:
                    return ("and", t)                 # flag if verdict else False
                if is_flag(t) and const_value(b) is False:
                    return ("and", a)                 # verdict if flag else False
            return None

        def is_chain_verdict(e: ast.AST | None) -> bool:
            e = _expand(sb, e)
            if isinstance(e, ast.BoolOp) and isinstance(e.op, ast.And):
                return any(is_chain_verdict(v) for v in e.values)
            return isinstance(e, ast.Call) and norm(e.func) == _c(f"{pseudo}.tree.unserialize_public") and len(e.args) == 1 \
                and not e.keywords and norm(e.args[0]) == p[3]
        inits, anded, false_nodes, lower_nodes = [], [x for v in listed for x in conjuncts(v)], [], []
        for name in flags:
            for s, v, i in local_defs(sb, name):
                low = lowering(name, s, v) if i is None else None
                if low is None:
                    inits.append((name, s, v))
                else:
                    lower_nodes.extend(cfg.nodes_for(s))
                    if low[0] == "and":
                        for cj in conjuncts(low[1]):
                            r = resolve(sb, cj)
                            if isinstance(r, ast.Name) and r.id not in sb.params() and len(local_defs(sb, r.id)) > 1:
                                # the verdict and-ed in is itself a flag (started as True and only lowered, checked like the others below)
                                if r.id not in flags:
                                    flags.append(r.id)
                            else:
                                anded.append(cj)
                    else:
                        false_nodes.extend(cfg.nodes_for(s))
        chain_inits = [(n, s, v) for n, s, v in inits if v is not None and is_chain_verdict(v)]
        chain_direct = [e for e in direct if is_chain_verdict(e)]
        # every flag starts exactly once, as the chain verdict or as True; everything else in the conjunction is the chain verdict itself
        ok = len(chain_inits) + len(chain_direct) == 1 and len(inits) == len(flags) and len(direct) == len(chain_direct) \
            and all(v is not None and not isinstance(s, (ast.For, ast.With)) and (is_chain_verdict(v) or const_value(strip_cast(v)) is True) for n, s, v in inits)
        why = "the flag of substantiate is not `tree.unserialize_public(tokens)` lowered only by `&=`"
        retnodes = [n for r in rets for n in cfg.nodes_for(r)]
        if ok:
            # every start is made on every path to the return, and before anything is and-ed in
            for n, s, v in inits:
                init_nodes = cfg.nodes_for(s)
                ok = ok and bool(init_nodes) and all(cfg.must_complete(n2, init_nodes) for n2 in retnodes)
                ok = ok and not any(i2 in cfg.reach(lower_nodes) for i2 in init_nodes)
        if ok:
            adds = [c for c in calls(sb) if call_name(c) == "add_attestation"]
            folded = [resolve(sb, a) for a in anded]

            def tested_and_lowered(c: ast.Call) -> bool:
                """the verdict of c is tested and the edge a False verdict takes leads to `flag = False` before the return"""
                hit = False
                for n in cfg.nodes:
                    if n.kind != "cond":
                        continue
                    s0 = _subject(n.ast, True)[0]
                    if resolve(sb, s0) is not c:
                        continue
                    for v, lab in n.succ:
                        if lab in (True, False) and _subject(n.ast, lab)[1](False):
                            hit = True
                            r = cfg.reach([v], cut_nodes=false_nodes)
                            if any(x in r for x in retnodes):
                                return False
                return hit
            ok = bool(adds) and all(any(c is f for f in folded) or tested_and_lowered(c) for c in adds) \
                and all(_x(sb, c.func.value) == pseudo for c in adds if isinstance(c.func, ast.Attribute))
            why = "an add_attestation verdict is not and-ed into the flag of substantiate"
        ok = ok and _x(sb, rv.elts[1]) == pseudo
    ctx.check(bool(ok), "attest-only-if-consented", sb, sb.node, "substantiate ANDs tree.unserialize_public and every add_attestation result",
              f"substantiate reports a disclosure as correct although a token or attestation failed verification ({why})")
    ctx.check(isinstance(rv, ast.Tuple) and len(rv.elts) == 2 and _x(sb, rv.elts[1]) == pseudo, "attest-only-if-consented", sb, sb.node,
              "the pseudonym is the one of the given key", "substantiate loads the disclosure into another key's pseudonym")


# ------------------------------------------------------------------------------------ storing
def _verify_fact(fi: FuncInfo, fs, obj: str, key: str) -> bool:
    """A dominating fact `obj.verify(key)` is truthy (possibly through a local holding the verdict)."""
    for f in fs:
        e = _expand(fi, f.left)
        hit = isinstance(e, ast.Call) and isinstance(e.func, ast.Attribute) and e.func.attr == "verify" and norm(e.func.value) == obj \
            and len(e.args) == 1 and not e.keywords and norm(e.args[0]) == key
        if hit and ((f.op == "truthy" and f.pos) or (f.op in ("is", "eq") and f.right is not None and const_value(f.right) is True and f.pos)):
            return True
    return False


def _contexts(ctx: Ctx, fi: FuncInfo, site: ast.AST, depth: int = 0) -> list:
    """
    The ways a site is reached: [(root function, [Fact] told in root's name space, lift)].  A private method is entered
    only through its callers, so what they established before the call holds at the site as well; lift rewrites an
    expression of fi into root's terms.
    """
    merged = _undecorated(ctx.repo, fi)
    if merged is not fi:
        # the function is wrapped by a new decorator: the site is read where it now runs, behind the wrapper's guards
        site2 = _same_site(merged, site)
        if site2 is None:
            raise AnalysisError(f"undecided: `{norm(site)[:60]}` of {fi.qualname} could not be located behind its new decorator")
        fi, site = merged, site2
    here = _Paths(ctx, fi, site).facts()
    alone = [(fi, here, lambda e: e)]
    if depth < 3 and fi.cls is not None and fi.cls.name.startswith("_") and fi.name not in ("__init__", "__new__") and _ctor_layout(fi.cls) is not None:
        # a method of a private parameter-holder object runs where such an object is called, with self.<attribute> being the constructor arguments
        out = []
        for g in fi.module.all_functions:
            for c in calls(g):
                held = _holder_method(g, c.func)
                if held is None or held[0].node is not fi.node:
                    continue
                fr = _Frame(g, c, fi, f"u{depth + 1}_", self_expr=held[1])
                if not fr.ok:
                    return alone
                for root, facts, lift in _contexts(ctx, g, c, depth + 1):
                    def l3(e, fr=fr, lift=lift):
                        return lift(fr.lift(e))
                    out.append((root, [*facts, *[fact_of(l3(a), q) for a, q in map(_pair_of, here)]], l3))
        return out or alone
    # a block that moved into a function the reviewed tree does not have (module level, possibly a new private module) is entered only through its calls
    moved = fi.cls is None and _is_new(fi) and isinstance(fi.node, (ast.FunctionDef, ast.AsyncFunctionDef)) and enclosing_function_of(fi.node) is None and not _used_as_value(ctx, fi)
    if depth >= 3 or fi.name.startswith("__") or not (moved or (fi.cls is not None and fi.name.startswith("_"))):
        return alone
    sites = []
    for m, g, c in ctx.repo.callers_of_name(fi.name):
        try:
            tg = ctx.repo.resolve_call(g, c) if g is not None else []
            if moved and not tg and isinstance(c.func, ast.Attribute) and isinstance(c.func.value, ast.Name):
                r = ctx.repo.resolve_name(m, c.func.value.id)
                if isinstance(r, tuple) and r[0] == "module" and r[1] is fi.module:
                    tg = [fi]
            if moved and g is None and (fi in tg or (isinstance(c.func, ast.Name) and m.imports.get(c.func.id, (None, None))[1] == fi.name)):
                return alone                      # called while a module is loaded
            if g is not None and any(t.node is fi.node or _undecorated(ctx.repo, t).node is fi.node for t in tg):
                sites.append((g, c))
        except AnalysisError:
            raise
        except Exception:  # noqa: BLE001
            return alone
    out = []
    for g, c in sites:
        fr = _Frame(g, c, fi, f"u{depth + 1}_")
        same_family = g.cls is fi.cls or (g.cls is not None and fi.cls is not None and fi.cls in g.cls.mro() and _is_new_class(fi.cls))
        if not fr.ok or not (moved or same_family) or g.node is fi.node:
            return alone
        for root, facts, lift in _contexts(ctx, g, c, depth + 1):
            def l2(e, fr=fr, lift=lift):
                return lift(fr.lift(e))
            out.append((root, [*facts, *[fact_of(l2(a), q) for a, q in map(_pair_of, here)]], l2))
    return out or alone


def enclosing_function_of(node: ast.AST):
    return next((a for a in ancestors(node) if isinstance(a, (ast.FunctionDef, ast.AsyncFunctionDef, ast.Lambda))), None)


def _is_new_class(k) -> bool:
    """a private class the reviewed tree does not have (none of its methods is in the frozen table of its file)"""
    try:
        from ..localnames import load_table
        table = load_table()
    except Exception:  # noqa: BLE001
        return False
    if not table or not k.name.startswith("_"):
        return False
    known = table.get(k.module.relpath)
    if known is None:
        return k.module.relpath.startswith("ipv8/")
    return not any(q.startswith(k.name + ".") for q in known)


def _used_as_value(ctx: Ctx, f2: FuncInfo) -> bool:
    """the module-level function is mentioned somewhere other than as the callee of a call, or imported under another name (its calls can then not be enumerated)"""
    for m in ctx.repo.modules.values():
        if any(v and v[1] == f2.name and local != f2.name for local, v in m.imports.items()):
            return True
        for x in ast.walk(m.tree):
            if isinstance(x, ast.Name) and x.id == f2.name and isinstance(x.ctx, ast.Load):
                if m is not f2.module and m.imports.get(x.id, (None, None))[1] != f2.name:
                    continue
                if not (isinstance(parent(x), ast.Call) and parent(x).func is x):
                    return True
            elif isinstance(x, ast.Attribute) and x.attr == f2.name and isinstance(x.ctx, ast.Load) and isinstance(x.value, ast.Name) \
                    and not (isinstance(parent(x), ast.Call) and parent(x).func is x):
                r = None
                try:
                    r = ctx.repo.resolve_name(m, x.value.id)
                except Exception:  # noqa: BLE001
                    return True
                if isinstance(r, tuple) and r[0] == "module" and r[1] is f2.module:
                    return True
    return False


def _same_site(merged: FuncInfo, site: ast.AST) -> ast.AST | None:
    """the copy of `site` (a node of the decorated function's body) inside the merged function: same kind, same position, same text"""
    want = (type(site), getattr(site, "lineno", None), getattr(site, "col_offset", None), getattr(site, "end_lineno", None), getattr(site, "end_col_offset", None))
    if want[1] is None:
        return None
    text = norm(site)
    hits = [n for n in ast.walk(merged.node) if (type(n), getattr(n, "lineno", None), getattr(n, "col_offset", None), getattr(n, "end_lineno", None), getattr(n, "end_col_offset", None)) == want
            and norm(n) == text]
    return hits[0] if len(hits) == 1 else None


def _verify_is_for_given_key(ctx: Ctx) -> None:
    """
    `x.verify(key)` is what the storing methods rely on for "x is validly signed by key".  That reading holds only if the
    verify() of attestations and metadata answers True solely on the strength of the signature primitive evaluated for
    the key it was GIVEN, over the object's own plaintext and signature: every exit that can hand back a truthy value
    returns, or lies behind a truthy, `self.crypto.is_valid_signature(<key parameter>, self.get_plaintext(),
    self.signature)`.  A verdict from anywhere else (a remembered earlier verdict, a flag on the object) is not a verdict
    about this key: an attestation signed by T then also 'verifies' for the sender S and is stored as made by S.
    """
    seen = set()
    for cname, rel in (("Attestation", "ipv8/attestation/identity/attestation.py"), ("Metadata", "ipv8/attestation/identity/metadata.py")):
        m = ctx.repo.cls(cname, rel).lookup("verify")
        if m is None:
            raise AnalysisError(f"anchor-lost: {cname}.verify")
        if id(m.node) in seen:
            continue
        seen.add(id(m.node))
        m = _unrolled(ctx, m)
        if len(m.params()) < 2:
            raise AnalysisError(f"anchor-lost: {m.qualname} takes no key")
        key = m.params()[1]

        def primitive(f: Fact, m=m, key=key) -> bool:
            e = _expand(m, f.left)
            while isinstance(e, ast.Call) and chain(e.func) == "bool" and len(e.args) == 1 and not e.keywords:
                e = e.args[0]
            if not (f.op == "truthy" and f.pos and isinstance(e, ast.Call) and chain(e.func) == "self.crypto.is_valid_signature"):
                return False
            if any(isinstance(a, ast.Starred) for a in e.args) or any(k.arg is None for k in e.keywords) or len(e.args) + len(e.keywords) != 3:
                return False
            got = [arg(e, i, k) for i, k in enumerate(("ec_key", "data", "signature"))]
            return None not in got and [norm(g) for g in got] == [key, "self.get_plaintext()", "self.signature"]
        exits = _approving_exits(ctx, m)
        ok = bool(exits) and not local_defs(m, key) and all(p.holds(primitive) for p in exits)
        bad = next((p for p in exits if not p.holds(primitive)), None)
        node = bad.sites[0].ast if bad is not None and bad.sites[0].ast is not None else m.node
        ctx.check(ok, "store-only-valid", m, node, f"{m.qualname}(key) is truthy only if is_valid_signature(key, own plaintext, own signature) is",
                  f"{m.qualname} can answer True without the signature having been checked against the key it was given (a remembered or otherwise obtained verdict): "
                  "an attestation signed by another key then 'verifies' for the sender and on_attest / add_attestation store it as made by the sender")


def _holder_only_made_in(ctx: Ctx, k, home) -> bool:
    """k is a private parameter-holder class whose instances are only ever made inside methods of `home` (and it is not subclassed or handed around)"""
    if k is None or not k.name.startswith("_") or _ctor_layout(k) is None or k.subclasses:
        return False
    made = 0
    for n in ast.walk(k.module.tree):
        if isinstance(n, ast.Name) and n.id == k.name and isinstance(n.ctx, ast.Load):
            par = parent(n)
            if isinstance(par, ast.Call) and par.func is n:
                g = ctx.repo.function_of(par)
                if g is None or g.cls is not home:
                    return False
                made += 1
            elif not any(isinstance(a, ast.arg) or (isinstance(a, ast.AnnAssign) and any(x is n for x in ast.walk(a.annotation)))
                         or (isinstance(a, (ast.FunctionDef, ast.AsyncFunctionDef)) and a.returns is not None and any(x is n for x in ast.walk(a.returns)))
                         for a in ancestors(n)):
                return False                      # the class itself is used as a value
    for m in ctx.repo.modules.values():
        if m is not k.module and k.name in m.imports:
            return False
    return made > 0


def _invocations(ctx: Ctx, g: FuncInfo, node: ast.AST, depth: int = 0) -> list | None:  # noqa: C901, PLR0911, PLR0912
    """
    Where the callable that expression `node` of g evaluates to is called: [([Fact], args, keywords)] told in g's name
    space - the facts that hold at the call, and what it is called with.  The callable may be called on the spot, kept in
    a single-assignment local, or handed to a helper whose body can be read (then the helper's parameter is followed).
    None when it goes anywhere else (returned, stored, passed to unknown code): its calls cannot be enumerated.
    """
    par = parent(node)
    if isinstance(par, ast.Call) and par.func is node:
        return [(_Paths(ctx, g, par).facts(), list(par.args), list(par.keywords))]
    if (isinstance(par, (ast.Tuple, ast.List)) and any(x is node for x in par.elts)) or (isinstance(par, ast.Dict) and any(x is node for x in par.values)):
        # an entry of a dispatch table: it is the one called where the table is indexed with its position / key
        picks = _table_picks(g, par)
        if picks is None:
            return None
        out = []
        for sub in picks:
            call = parent(sub)
            if not (isinstance(call, ast.Call) and call.func is sub):
                return None
            if isinstance(par, ast.Dict):
                key = par.keys[next(i for i, x in enumerate(par.values) if x is node)]
                kc = const_value(key) if key is not None else NOCONST
                if kc is NOCONST:
                    return None
                picked = fact_of(sub.slice, kc) if isinstance(kc, bool) else fact_of(ast.Compare(left=sub.slice, ops=[ast.Eq()], comparators=[key]), True)
            else:
                i = next(i for i, x in enumerate(par.elts) if x is node)
                if any(isinstance(x, ast.Starred) for x in par.elts):
                    return None
                # a pair indexed by a flag: entry 1 for a true flag, entry 0 for a false one (anything else does not pick this entry)
                picked = fact_of(sub.slice, i == 1) if len(par.elts) == 2 else fact_of(ast.Compare(left=sub.slice, ops=[ast.Eq()], comparators=[ast.Constant(value=i)]), True)
            out.append(([*_Paths(ctx, g, call).facts(), picked], list(call.args), list(call.keywords)))
        return out
    if isinstance(par, (ast.Assign, ast.AnnAssign, ast.NamedExpr)) and par.value is node:
        tg = par.targets[0] if isinstance(par, ast.Assign) and len(par.targets) == 1 else getattr(par, "target", None)
        if not isinstance(tg, ast.Name) or tg.id in g.params() or len(local_defs(g, tg.id)) != 1:
            return None
        return _name_invocations(ctx, g, tg.id, depth)
    call = par if isinstance(par, ast.Call) else parent(par) if isinstance(par, ast.keyword) else None
    if isinstance(call, ast.Call) and depth < 3:
        fr = _follow(ctx, g, call, f"t{depth + 1}_")
        if fr is None:
            return None
        pname = next((k for k, v in fr.bind.items() if v is node), None)
        if pname is None or pname in fr.locals:
            return None
        sub = _name_invocations(ctx, fr.hf, pname, depth + 1)
        if sub is None:
            return None
        here = _Paths(ctx, g, call).facts()
        out = []
        for facts, args, kws in sub:
            lifted = [fact_of(fr.lift(a), q) for a, q in map(_pair_of, facts)]
            out.append(([*here, *lifted], [ast.Starred(value=fr.lift(a.value), ctx=ast.Load()) if isinstance(a, ast.Starred) else fr.lift(a) for a in args],
                        [ast.keyword(arg=k.arg, value=fr.lift(k.value)) for k in kws]))
        return out
    return None


def _table_picks(g: FuncInfo, table: ast.AST) -> list | None:
    """the subscripts `table[key]` that read the literal table (used on the spot or kept in a single-assignment local); None when it goes elsewhere"""
    par = parent(table)
    if isinstance(par, ast.Subscript) and par.value is table and isinstance(par.ctx, ast.Load) and not isinstance(par.slice, ast.Slice):
        return [par]
    if isinstance(par, (ast.Assign, ast.AnnAssign)) and par.value is table:
        tg = par.targets[0] if isinstance(par, ast.Assign) and len(par.targets) == 1 else getattr(par, "target", None)
        if not isinstance(tg, ast.Name) or tg.id in g.params() or len(local_defs(g, tg.id)) != 1:
            return None
        out = []
        for n in ast.walk(g.node):
            if isinstance(n, ast.Name) and n.id == tg.id and isinstance(n.ctx, ast.Load):
                p2 = parent(n)
                if not (isinstance(p2, ast.Subscript) and p2.value is n and isinstance(p2.ctx, ast.Load) and not isinstance(p2.slice, ast.Slice)):
                    return None
                out.append(p2)
        return out
    return None


def _name_invocations(ctx: Ctx, g: FuncInfo, name: str, depth: int) -> list | None:
    own = {id(n) for n in walk_no_nested(g.node)}
    out = []
    for n in ast.walk(g.node):
        if isinstance(n, ast.Name) and n.id == name and isinstance(n.ctx, ast.Load):
            if id(n) not in own:
                return None                       # read inside a nested function: called at an unknown time
            r = _invocations(ctx, g, n, depth)
            if r is None:
                return None
            out.extend(r)
    return out


def _store_calls(ctx: Ctx, name: str) -> list:
    """
    Every way IdentityDatabase.<name> gets called from the identity package: (module, function, node the call is made
    from, the call as (args, keywords), [facts that hold whenever it runs, in the function's terms]).  Besides plain calls
    this reads `functools.partial(db.<name>, a, b)`: the call happens where the partial object is called, with the frozen
    arguments first.  Any other use of the method as a value cannot be enumerated and is reported as undecided.
    """
    out = []
    for m, fi, a in ctx.repo.attribute_uses(name):
        if not m.relpath.startswith("ipv8/attestation/identity/") or m.relpath.endswith("database.py") or not isinstance(a.ctx, ast.Load):
            continue
        par = parent(a)
        if isinstance(par, ast.Call) and par.func is a:
            lam = next((x for x in ancestors(par) if isinstance(x, (ast.Lambda, ast.FunctionDef, ast.AsyncFunctionDef))), None)
            if fi is not None and isinstance(lam, ast.Lambda):
                # the call is the body of a lambda: it runs where the lambda is called, with the lambda's parameters bound there
                inv = _invocations(ctx, fi, lam)
                la = lam.args
                if inv is None or la.vararg or la.kwarg or la.kwonlyargs or la.defaults:
                    raise AnalysisError(f"undecided: {fi.qualname} calls {name} inside a lambda (`{head(enclosing_stmt(a))[:80]}`); where the lambda ends up being called could not be followed")
                names = [x.arg for x in [*la.posonlyargs, *la.args]]
                for fs, args, kws in inv:
                    if kws or len(args) != len(names) or any(isinstance(x, ast.Starred) for x in args):
                        raise AnalysisError(f"undecided: arguments of the lambda around {name} in {fi.qualname}")
                    mapping = dict(zip(names, args))

                    class Sub(ast.NodeTransformer):
                        def visit_Name(self, n, mapping=mapping):  # noqa: N802
                            return clone(mapping[n.id]) if n.id in mapping and isinstance(n.ctx, ast.Load) else n
                    eff = ast.Call(func=a, args=[Sub().visit(clone(x)) for x in par.args], keywords=[ast.keyword(arg=k.arg, value=Sub().visit(clone(k.value))) for k in par.keywords])
                    out.append((m, fi, par, eff, fs))
            elif fi is not None:
                out.append((m, fi, par, par, []))
            continue
        if fi is None:
            raise AnalysisError(f"undecided: {name} is taken as a value at module level of {m.relpath}")
        thunk = par if isinstance(par, ast.Call) and _lib(chain(par.func)) == "partial" and par.args and par.args[0] is a \
            and not any(isinstance(x, ast.Starred) for x in par.args) and all(k.arg is not None for k in par.keywords) else None
        # the bound method as a value: frozen into a partial, kept in a local, put into a dispatch table, handed to a helper
        inv = _invocations(ctx, fi, thunk if thunk is not None else a)
        if inv is None:
            raise AnalysisError(f"undecided: {fi.qualname} takes `{norm(a)}` as a value (`{head(enclosing_stmt(a))[:80]}`); where it ends up being called could not be followed")
        frozen_a, frozen_k = (thunk.args[1:], thunk.keywords) if thunk is not None else ([], [])
        for fs, args, kws in inv:
            out.append((m, fi, thunk if thunk is not None else a, ast.Call(func=a, args=[*frozen_a, *args], keywords=[*frozen_k, *kws]), fs))
    return out


def rule_store(ctx: Ctx) -> None:
    repo = ctx.repo
    pm = repo.cls("PseudonymManager", IM)
    n = 0
    for meth, (m, fi, c, eff, extra) in [(k, t) for k in ("insert_attestation", "insert_metadata") for t in _store_calls(ctx, k)]:
        n += 1
        inside = fi.cls is pm or _holder_only_made_in(ctx, fi.cls, pm)
        if not inside and fi.cls is not None and fi.cls in pm.mro() and _is_new_class(fi.cls):
            inside = True                         # a method PseudonymManager inherits from a new private mixin / base is one of its methods
        elif not inside and fi.cls is None:
            # the call moved into a new module-level function: it runs where PseudonymManager's methods call it
            roots = _contexts(ctx, fi, c)
            inside = bool(roots) and all(root.cls is pm and root.node is not fi.node for root, _fs, _lift in roots)
        ctx.check(inside, "store-only-valid", fi, c, f"{meth} called from PseudonymManager", f"{meth} is called outside PseudonymManager's verifying methods")
        if not inside:
            continue
        ok, shown = True, []
        for root, fs, lift in _contexts(ctx, fi, c):
            fs = [*fs, *[fact_of(lift(a), q) for a, q in map(_pair_of, extra)]]
            shown = [str(f) for f in fs]
            if meth == "insert_attestation":
                a0, a1, a2 = arg(eff, 0, "public_key"), arg(eff, 1, "authority_key"), arg(eff, 2, "attestation")
                ok = ok and None not in (a0, a1, a2) and _verify_fact(root, fs, _x(root, lift(a2)), _x(root, lift(a1))) and _x(root, lift(a0)) == "self.public_key"
            else:
                a0, a1 = arg(eff, 0, "public_key"), arg(eff, 1, "metadata")
                ok = ok and None not in (a0, a1) and _verify_fact(root, fs, _x(root, lift(a1)), "self.public_key") and _x(root, lift(a0)) == "self.public_key"
        if meth == "insert_attestation":
            ctx.check(ok, "store-only-valid", fi, c, "attestation stored only if it verifies under the key recorded as its authority",
                      "an attestation is stored without being validly signed by the recorded authority", shown)
        else:
            ctx.check(ok, "store-only-valid", fi, c, "metadata stored only if signed by the pseudonym's key", "metadata is stored without a valid owner signature", shown)
    ctx.floor("store-only-valid", n, 3)
    _verify_is_for_given_key(ctx)
    oa = _method(ctx, "IdentityCommunity", "on_attest", IC)
    from .c01 import classify_handler
    ctx.check(classify_handler(ctx, oa) == "authenticated", "store-only-valid", oa, oa.node, "on_attest is authenticated", "on_attest is not authenticated")
    peer = oa.params()[1]
    aa = _sites_below(ctx, oa, lambda c: call_name(c) == "add_attestation")
    un = _sites_below(ctx, oa, lambda c: chain(c.func) == "Attestation.unserialize")
    ok = len(aa) == 1 and len(un) == 1 and not local_defs(oa, peer)
    if ok:
        (_o1, c1, _f1, l1), (_o2, c2, _f2, l2) = aa[0], un[0]
        k1, k2 = arg(c1, 0, "public_key"), arg(c2, 1, "public_key")
        ok = k1 is not None and k2 is not None and _x(oa, l1(k1)) == f"{peer}.public_key" and _x(oa, l2(k2)) == f"{peer}.public_key" \
            and chain(c1.func) == "self.pseudonym_manager.add_attestation"
    ctx.check(ok, "store-only-valid", oa, oa.node, "incoming attestation verified and recorded under the authenticated sender's key",
              "an incoming attestation is attributed to a key other than the authenticated sender's")


# ------------------------------------------------------------------------------------ token hand-out
def _permission_bound(e: ast.AST | None, peer: str) -> bool:
    """e is the position opened to `peer`, 0 when nothing was opened: permissions.get(peer, 0) or its if-expression spelling."""
    if isinstance(e, ast.Call) and chain(e.func) == "self.permissions.get" and not e.keywords and len(e.args) == 2:
        return norm(e.args[0]) == peer and const_value(e.args[1]) == 0 and not isinstance(const_value(e.args[1]), bool)
    if isinstance(e, ast.IfExp):
        t, a, b = e.test, e.body, e.orelse
        while isinstance(t, ast.UnaryOp) and isinstance(t.op, ast.Not):
            t, a, b = t.operand, b, a
        if isinstance(t, ast.Compare) and len(t.ops) == 1 and isinstance(t.ops[0], ast.NotIn):
            t, a, b = ast.Compare(left=t.left, ops=[ast.In()], comparators=t.comparators), b, a
        return isinstance(t, ast.Compare) and len(t.ops) == 1 and isinstance(t.ops[0], ast.In) and norm(t.left) == peer \
            and norm(t.comparators[0]) == "self.permissions" and norm(a) == f"self.permissions[{peer}]" \
            and const_value(b) == 0 and not isinstance(const_value(b), bool)
    return False


def _permitted_tokens(fi: FuncInfo, e: ast.AST | None, peer: str) -> bool:
    """e evaluates to (a slice of) self.token_chain[:<position opened to peer>]."""
    e = _expand(fi, e)
    for _ in range(4):
        if not (isinstance(e, ast.Subscript) and isinstance(e.slice, ast.Slice)):
            return False
        if norm(e.value) == "self.token_chain":
            return e.slice.lower is None and e.slice.step is None and _permission_bound(e.slice.upper, peer)
        if e.slice.step is not None:
            return False
        e = e.value          # a plain sub-slice of a permitted list is permitted
    return False


class _Prov:
    """
    Where a value of fi comes from, as one of a few kinds decided over ALL definitions and in-place updates of the locals
    involved (never over statement order):
      BOUND  a position not beyond the one opened to the peer: permissions.get(peer, 0), permissions[peer] (raises when
             nothing was opened), 0, a choice between such, min(such, len(...))
      TOKENS tokens of self.token_chain[<any>:BOUND] (any sub-slice / filter / copy of that)   TOKEN  one of those
      BYTES  b"" / TOKEN.get_plaintext_signed() / concatenations, joins and slices of BYTES     CHUNKS a list of BYTES
      PAIRS  enumerate(TOKENS)    EMPTY  an empty list literal    None  anything else
    peers: the names in fi that denote the requesting peer; param_kinds: kinds of fi's parameters fixed by its callers.
    """

    def __init__(self, ctx: Ctx, fi: FuncInfo, peers: set[str], param_kinds: dict | None = None, depth: int = 0) -> None:
        self.ctx, self.fi, self.peers, self.param_kinds, self.depth = ctx, fi, {p for p in peers if not local_defs(fi, p)}, param_kinds or {}, depth
        self.busy: set[str] = set()
        self.memo: dict = {}
        self.alias: dict[str, ast.AST] = {}       # never-rebound parameters of a followed helper that are the community / its chain / its permission map

    def canon(self, e: ast.AST | None) -> ast.AST | None:
        """e with the parameters that were handed the community, its token chain or its permission map spelled as self / self.token_chain / self.permissions"""
        if e is None or not self.alias or not any(isinstance(n, ast.Name) and n.id in self.alias for n in ast.walk(e)):
            return e
        alias = self.alias

        class Sub(ast.NodeTransformer):
            def visit_Name(self, n):  # noqa: N802
                return clone(alias[n.id]) if n.id in alias and isinstance(n.ctx, ast.Load) else n
        return Sub().visit(clone(e))

    @staticmethod
    def unify(kinds) -> str | None:
        kinds = [k for k in kinds if k != "*"]
        if not kinds:
            return "*"
        if any(k is None for k in kinds):
            return None
        real = {k for k in kinds if k != "EMPTY"}
        if not real:
            return "EMPTY"
        if len(real) == 1:
            return next(iter(real))
        return None

    def is_peer(self, e: ast.AST) -> bool:
        e = resolve(self.fi, e)
        if isinstance(e, ast.Name):
            return e.id in self.peers
        comps = self.components(e) if e is not None else None
        return bool(comps) and all(pv.is_peer(x) for pv, x in comps)

    def components(self, e: ast.AST) -> list | None:
        """
        [(provenance, expression)]: what e = <base>.<field> / <base>[<position>] can be when <base> shows how it was built - a
        tuple display or result object, directly, through single-assignment locals, or as the returned value of a helper of
        the own class (one alternative per return).  None when it does not.
        """
        step = _step_of(e) if isinstance(e, (ast.Attribute, ast.Subscript)) else None
        if step is None:
            return None
        base = resolve(self.fi, e.value)
        fe = _field_expr(self.fi, base, step)
        if fe is not None:
            return [(self, fe)]
        if isinstance(base, ast.Call) and self.depth < 3:
            fr = _follow(self.ctx, self.fi, base, "c_")
            sub = self.sub(fr) if fr is not None else None
            if sub is None:
                return None
            rets = [r for r in walk_no_nested(fr.hf.node) if isinstance(r, ast.Return)]
            falls = [u for u, lab in self.ctx.cfg(fr.hf).exit.pred if not isinstance(u.ast, ast.Return)]
            if not rets or falls:
                return None
            out = []
            for r in rets:
                fe = _field_expr(fr.hf, resolve(fr.hf, r.value), step) if r.value is not None else None
                if fe is None:
                    return None
                out.append((sub, fe))
            return out
        return None

    def counter(self, name: str) -> bool:
        """a local that starts at a non-negative number and is only ever increased by non-negative steps"""
        ds = local_defs(self.fi, name)
        if name in self.fi.params() or not ds:
            return False
        for st, v, i in ds:
            if isinstance(st, ast.AugAssign):
                if not (isinstance(st.op, ast.Add) and self.nonneg(st.value)):
                    return False
            elif v is None or i is not None or not isinstance(st, (ast.Assign, ast.AnnAssign)):
                return False
            else:
                v = strip_cast(v)
                step = isinstance(v, ast.BinOp) and isinstance(v.op, ast.Add) and ((isinstance(v.left, ast.Name) and v.left.id == name and self.nonneg(v.right))
                                                                                   or (isinstance(v.right, ast.Name) and v.right.id == name and self.nonneg(v.left)))
                if not step and not self.nonneg(v):
                    return False
        return True

    def nonneg(self, e: ast.AST | None, depth: int = 0) -> bool:  # noqa: PLR0911
        """e is a number that is never negative: a constant, a length, a bound, an unsigned field of a received payload, sums / max(0, .) of such"""
        e = strip_cast(e) if e is not None else None
        if e is None or depth > 4:
            return False
        cv = const_value(e)
        if cv is not NOCONST:
            return isinstance(cv, int) and not isinstance(cv, bool) and cv >= 0
        if self.bound(e):
            return True
        if isinstance(e, ast.Call) and chain(e.func) == "len" and len(e.args) == 1:
            return True
        if isinstance(e, ast.Call) and chain(e.func) == "max" and len(e.args) >= 2 and not e.keywords:
            return any(self.nonneg(a, depth + 1) for a in e.args)
        if isinstance(e, ast.BinOp) and isinstance(e.op, (ast.Add, ast.Mult)):
            return self.nonneg(e.left, depth + 1) and self.nonneg(e.right, depth + 1)
        if isinstance(e, ast.Name):
            ds = local_defs(self.fi, e.id)
            return bool(ds) and e.id not in self.fi.params() and all(v is not None and i is None and not isinstance(st, ast.AugAssign) and self.nonneg(v, depth + 1) for st, v, i in ds)
        if isinstance(e, ast.Attribute) and isinstance(e.value, ast.Name) and e.value.id in self.fi.params() and not local_defs(self.fi, e.value.id):
            # <payload parameter>.<field> packed with an unsigned format
            ann = next((a.annotation for a in [*self.fi.node.args.posonlyargs, *self.fi.node.args.args, *self.fi.node.args.kwonlyargs] if a.arg == e.value.id), None)
            c = self.ctx.repo.resolve_class_expr(self.fi.module, ann) if ann is not None else None
            if c is not None:
                names, fmts = c.lookup_attr("names"), c.lookup_attr("format_list")
                if isinstance(names, (ast.List, ast.Tuple)) and isinstance(fmts, (ast.List, ast.Tuple)) and len(names.elts) == len(fmts.elts):
                    for n, f in zip(names.elts, fmts.elts):
                        if const_value(n) == e.attr:
                            return const_value(f) in ("B", "H", "I", "Q", "L", ">B", ">H", ">I", ">Q", ">L")
        return False

    def bound(self, e: ast.AST | None, depth: int = 0) -> bool:  # noqa: C901, PLR0911
        e = strip_cast(e) if e is not None else None
        if e is None or depth > 6:
            return False
        e = self.canon(e)
        cv = const_value(e)
        if cv is not NOCONST:
            return cv == 0 and not isinstance(cv, bool)
        if isinstance(e, ast.Name):
            if e.id in self.fi.params():
                return self.param_kinds.get(e.id) == "BOUND" and not local_defs(self.fi, e.id)
            ds = local_defs(self.fi, e.id)
            return bool(ds) and all(v is not None and not isinstance(s, ast.AugAssign) and self.bound(v if i is None else ast.Subscript(value=v, slice=ast.Constant(value=i), ctx=ast.Load()), depth + 1)
                                    for s, v, i in ds)
        if isinstance(e, (ast.Attribute, ast.Subscript)) and _step_of(e) is not None and norm(e.value) != "self.permissions":
            comps = self.components(e)
            if comps is not None:
                return bool(comps) and all(pv.bound(x, depth + 1) for pv, x in comps)
        if isinstance(e, ast.Call) and chain(e.func) == "self.permissions.get" and not e.keywords and len(e.args) == 2:
            return self.is_peer(e.args[0]) and const_value(e.args[1]) == 0 and not isinstance(const_value(e.args[1]), bool)
        if isinstance(e, ast.Subscript) and norm(e.value) == "self.permissions" and not isinstance(e.slice, ast.Slice):
            return self.is_peer(e.slice)
        if isinstance(e, ast.IfExp):
            return self.bound(e.body, depth + 1) and self.bound(e.orelse, depth + 1)
        if isinstance(e, ast.BoolOp) and isinstance(e.op, ast.Or):
            # permissions.get(peer) or 0: a missing (None) or zero entry falls through to the next alternative
            def maybe(x: ast.AST) -> bool:
                return isinstance(x, ast.Call) and chain(x.func) == "self.permissions.get" and not x.keywords and self.is_peer(x.args[0]) and \
                    (len(x.args) == 1 or (len(x.args) == 2 and const_value(x.args[1]) is None))
            return all(maybe(x) or self.bound(x, depth + 1) for x in e.values[:-1]) and self.bound(e.values[-1], depth + 1)
        if isinstance(e, ast.Call) and chain(e.func) == "min" and len(e.args) == 2 and not e.keywords:
            def length(x: ast.AST) -> bool:
                return isinstance(x, ast.Call) and chain(x.func) == "len" and len(x.args) == 1
            a, b = e.args
            return (self.bound(a, depth + 1) and (length(b) or self.bound(b, depth + 1))) or (length(a) and self.bound(b, depth + 1))
        val = _pure_call_value(self.fi, e) if isinstance(e, ast.Call) else None
        if val is not None and not any(isinstance(n, ast.Name) and n.id.startswith("v_") for n in ast.walk(val)):
            return self.bound(val, depth + 1)
        fr = _follow(self.ctx, self.fi, e, "b_")
        if fr is not None and self.depth < 3:
            sub = self.sub(fr)
            rets = [r for r in walk_no_nested(fr.hf.node) if isinstance(r, ast.Return)]
            falls = [u for u, lab in self.ctx.cfg(fr.hf).exit.pred if not isinstance(u.ast, ast.Return)]
            return sub is not None and bool(rets) and not falls and all(r.value is not None and sub.bound(r.value) for r in rets)
        return False

    def sub(self, fr: _Frame) -> "_Prov | None":
        """the same question inside a followed helper: its parameters take the kinds of the arguments"""
        own = fr.hf.cls is not None and (fr.hf.cls is self.fi.cls or (self.fi.cls is not None and fr.hf.cls in self.fi.cls.mro()))
        if not own and not _is_new(fr.hf):
            return None                           # only helpers of the class itself (or its bases) and functions the reviewed tree does not have
        peers, kinds, alias = set(), {}, {}
        for name, a in fr.bind.items():
            if name in fr.locals:
                continue                          # rebound parameter: a local of the helper
            t = norm(self.canon(resolve(self.fi, a))) if a is not None else None
            if t in ("self", "self.token_chain", "self.permissions") and (name != "self" or t == "self"):
                alias[name] = ast.parse(t, mode="eval").body
                if t == "self.token_chain":
                    kinds[name] = "CHAIN"
                continue
            if self.is_peer(a):
                peers.add(name)
            elif self.bound(a):
                kinds[name] = "BOUND"
            else:
                kinds[name] = self.kind(a, {})
        out = _Prov(self.ctx, fr.hf, peers, kinds, self.depth + 1)
        out.alias = {k: v for k, v in alias.items() if not (k == "self" and norm(v) == "self")}
        return out

    def local_kind(self, name: str) -> str | None:  # noqa: C901, PLR0912
        if name in self.memo:
            return self.memo[name]
        if name in self.busy:
            return "*"
        self.busy.add(name)
        kinds = []
        if name in self.fi.params():
            kinds.append(self.param_kinds.get(name))
        for st, v, idx in local_defs(self.fi, name):
            if isinstance(st, (ast.For, ast.AsyncFor)):
                ik = self.kind(st.iter, {})
                if ik == "CPAIRS" and self.guarded_position(st, name):
                    kinds.append("TOKEN")
                    continue
                kinds.append(self.bind_target(st.target, ik).get(name))
            elif isinstance(st, ast.AugAssign):
                kinds.append(self.kind(st.value, {}) if isinstance(st.op, ast.Add) else None)
            elif v is not None and idx is None:
                kinds.append(self.kind(v, {}))
            elif v is not None:
                kinds.append(self.unpacked_kind(st, name, self.kind(v, {})))
            else:
                kinds.append(None)
        # in-place updates
        for n in walk_no_nested(self.fi.node):
            if isinstance(n, ast.Call) and isinstance(n.func, ast.Attribute) and isinstance(n.func.value, ast.Name) and n.func.value.id == name:
                m = n.func.attr
                if m in ("append", "add", "appendleft") and len(n.args) == 1:
                    k = self.kind(n.args[0], {})
                    kinds.append({"BYTES": "CHUNKS", "TOKEN": "TOKENS"}.get(k))
                elif m == "insert" and len(n.args) == 2:
                    kinds.append({"BYTES": "CHUNKS", "TOKEN": "TOKENS"}.get(self.kind(n.args[1], {})))
                elif m in ("extend", "update", "extendleft") and len(n.args) == 1:
                    k = self.kind(n.args[0], {})
                    kinds.append(k if k in ("CHUNKS", "TOKENS", "EMPTY") else None)
                elif m in ("__setitem__", "__iadd__", "__setslice__"):
                    kinds.append(None)
            elif isinstance(n, ast.Subscript) and isinstance(n.ctx, ast.Store) and isinstance(n.value, ast.Name) and n.value.id == name:
                kinds.append(None)
        self.busy.discard(name)
        k = self.unify(kinds) if kinds else None
        if k != "*" and not self.busy:
            self.memo[name] = k
        return k

    @staticmethod
    def unpacked_kind(st: ast.AST, name: str, k: str | None) -> str | None:
        """kind of `name` bound by `a, *b, c = <value of kind k>`: a starred name keeps a part of the container, a plain one is an element"""
        tg = st.targets[0] if isinstance(st, ast.Assign) and len(st.targets) == 1 else st.target if isinstance(st, ast.AnnAssign) else None
        if not isinstance(tg, (ast.Tuple, ast.List)):
            return None
        for i, t in enumerate(tg.elts):
            if isinstance(t, ast.Starred) and isinstance(t.value, ast.Name) and t.value.id == name:
                return k if k in ("TOKENS", "CHUNKS", "EMPTY") else None
            if isinstance(t, ast.Name) and t.id == name:
                if k == "PAIR":
                    return "TOKEN" if i == 1 and len(tg.elts) == 2 and not any(isinstance(x, ast.Starred) for x in tg.elts) else None
                return _ELEM.get(k) if k in ("TOKENS", "CHUNKS") else None
        return None

    def applied(self, f: ast.AST | None, elem: str | None, env: dict) -> str | None:  # noqa: PLR0911
        """kind of f(x) for x of kind elem, f a callable expression (lambda, methodcaller / itemgetter object, unbound method, bytes)"""
        f = resolve(self.fi, f) if f is not None else None
        if f is None or elem is None:
            return None
        if isinstance(f, ast.Lambda):
            a = f.args
            if len(a.args) + len(a.posonlyargs) != 1 or a.vararg or a.kwarg or a.kwonlyargs:
                return None
            return self.kind(f.body, {**env, [*a.posonlyargs, *a.args][0].arg: elem})
        if isinstance(f, ast.Call) and not f.keywords and _lib(chain(f.func)) == "methodcaller" and len(f.args) == 1:
            return "BYTES" if const_value(f.args[0]) == "get_plaintext_signed" and elem == "TOKEN" else None
        if isinstance(f, ast.Call) and not f.keywords and _lib(chain(f.func)) == "itemgetter" and len(f.args) == 1:
            i = const_value(f.args[0])
            if isinstance(i, bool) or not isinstance(i, int):
                return None
            return "TOKEN" if elem == "PAIR" and i == 1 else None
        if isinstance(f, ast.Attribute) and f.attr == "get_plaintext_signed" and isinstance(f.value, ast.Name) \
                and not local_defs(self.fi, f.value.id) and f.value.id not in self.fi.params():
            return "BYTES" if elem == "TOKEN" else None          # Token.get_plaintext_signed: the unbound method
        if isinstance(f, ast.Name) and f.id in ("bytes", "bytearray") and not local_defs(self.fi, f.id):
            return "BYTES" if elem == "BYTES" else None
        return None

    def concatenates(self, f: ast.AST | None) -> bool:
        """f(a, b) is a + b"""
        f = resolve(self.fi, f) if f is not None else None
        if isinstance(f, ast.Lambda):
            a = f.args
            ps = [x.arg for x in [*a.posonlyargs, *a.args]]
            b = f.body
            return len(ps) == 2 and not (a.vararg or a.kwarg or a.kwonlyargs) and isinstance(b, ast.BinOp) and isinstance(b.op, ast.Add) \
                and isinstance(b.left, ast.Name) and isinstance(b.right, ast.Name) and sorted([b.left.id, b.right.id]) == sorted(ps) and ps[0] != ps[1]
        return f is not None and chain(f) in ("add", "operator.add", "concat", "operator.concat", "iadd", "operator.iadd", "iconcat", "operator.iconcat", "bytes.__add__")

    def pipeline(self, f: str, e: ast.Call, env: dict):  # noqa: C901, PLR0911, PLR0912
        """
        Lazy pipelines (builtins / itertools / functools): every stage hands on a selection of what it was given (filter,
        dropwhile, takewhile, islice, chain, next, max, min), something made per element (map), or concatenations of the
        given byte strings (accumulate, reduce with +).  NotImplemented when f is none of these.
        """
        kw = {k.arg: k.value for k in e.keywords}
        a = e.args
        sel = ("TOKENS", "CHUNKS", "PAIRS", "EMPTY", "INDEXES")
        if f in ("filter", "filterfalse", "dropwhile", "takewhile") and len(a) == 2 and not kw:
            k = self.kind(a[1], env)
            if k == "CPAIRS":
                # pairs of the whole chain: bounded when the kept ones have a position below the bound
                fn = resolve(self.fi, a[0])
                if f in ("filter", "takewhile") and isinstance(fn, ast.Lambda) and len(fn.args.args) == 1 and not (fn.args.posonlyargs or fn.args.vararg or fn.args.kwarg or fn.args.kwonlyargs):
                    p0 = fn.args.args[0].arg
                    body = _PairIndex(p0).visit(clone(fn.body))
                    if self.below_bound(body, p0 + "#0", {**env, p0: None, p0 + "#0": None}):
                        return "PAIRS"
                return k
            return k if k in sel else None
        if f == "islice" and 2 <= len(a) <= 4 and not kw:
            k = self.kind(a[0], env)
            if k in ("CHAIN", "CPAIRS"):
                stop = a[1] if len(a) == 2 else a[2]
                step = const_value(a[3]) if len(a) == 4 else 1
                ok = isinstance(step, int) and not isinstance(step, bool) and step > 0 and self.bound(_sub_env(stop, env))
                return {"CHAIN": "TOKENS", "CPAIRS": "PAIRS"}[k] if ok else None
            return k if k in sel else None
        if f == "range" and 1 <= len(a) <= 3 and not kw:
            # positions below the bound, none of them negative
            stop = a[0] if len(a) == 1 else a[1]
            step = const_value(a[2]) if len(a) == 3 else 1
            ok = isinstance(step, int) and not isinstance(step, bool) and step > 0 and self.bound(_sub_env(stop, env)) and (len(a) == 1 or self.nonneg(_sub_env(a[0], env)))
            return "INDEXES" if ok else None
        if f == "chain" and a and not kw:
            k = self.unify([self.kind(x, env) for x in a])
            return k if k in ("TOKENS", "CHUNKS", "EMPTY") else None
        if f == "zip" and len(a) == 2 and not [x for x in kw if x != "strict"]:
            first = strip_cast(a[0])
            counter = isinstance(first, ast.Call) and _lib(chain(first.func)) in ("range", "count")
            k = self.kind(a[1], env)
            if k == "CHAIN":
                # as many tokens from the start of the chain as there are positions below the bound
                return "PAIRS" if self.kind(first, env) == "INDEXES" else None
            return "PAIRS" if counter and k == "TOKENS" else None
        if f == "map" and len(a) == 2 and not kw:
            k = self.kind(a[1], env)
            if k == "EMPTY":
                return k
            return _CONT.get(self.applied(a[0], _ELEM.get(k), env))
        if f == "accumulate" and 1 <= len(a) <= 2 and not [x for x in kw if x not in ("func", "initial")] and not (len(a) == 2 and "func" in kw):
            fn = a[1] if len(a) == 2 else kw.get("func")
            init = kw.get("initial") if "initial" in kw and const_value(kw["initial"]) is not None else None
            k = self.kind(a[0], env)
            elem = "BYTES" if k == "EMPTY" else _ELEM.get(k)
            acc = self.kind(init, env) if init is not None else elem
            return "CHUNKS" if acc == "BYTES" and self.folded(fn, acc, elem, env) == "BYTES" else None
        if f == "reduce" and 2 <= len(a) <= 3 and not kw:
            k = self.kind(a[1], env)
            elem = "BYTES" if k == "EMPTY" else _ELEM.get(k)
            acc = self.kind(a[2], env) if len(a) == 3 else elem
            return "BYTES" if acc == "BYTES" and self.folded(a[0], acc, elem, env) == "BYTES" else None
        if f == "next" and 1 <= len(a) <= 2 and not kw:
            k = _ELEM.get(self.kind(a[0], env))
            if k is None or len(a) == 1:
                return k
            return self.unify([k, self.kind(a[1], env)])
        if f in ("max", "min") and len(a) == 1 and not [x for x in kw if x not in ("key", "default")]:
            k = _ELEM.get(self.kind(a[0], env))
            if k is None or "default" not in kw:
                return k
            return self.unify([k, self.kind(kw["default"], env)])
        if f in ("add", "concat", "iadd", "iconcat") and len(a) == 2 and not kw:
            k = self.unify([self.kind(a[0], env), self.kind(a[1], env)])
            return k if k in ("BYTES", "CHUNKS", "TOKENS", "EMPTY") else None
        return NotImplemented

    def guarded_position(self, loop: ast.AST, name: str) -> bool:
        """
        `for position, token in enumerate(<whole chain>)`: `name` is the token, and every read of it lies behind a test that
        keeps the position below a bound (`if position >= opened: break` before it, `if position < opened:` around it).
        """
        tg = loop.target
        if not (isinstance(tg, (ast.Tuple, ast.List)) and len(tg.elts) == 2 and all(isinstance(t, ast.Name) for t in tg.elts)) or tg.elts[1].id != name:
            return False
        pos = tg.elts[0].id
        if pos == name or len(local_defs(self.fi, pos)) != 1 or len(local_defs(self.fi, name)) != 1 or pos in self.fi.params() or name in self.fi.params():
            return False
        uses = [n for n in ast.walk(self.fi.node) if isinstance(n, ast.Name) and n.id == name and isinstance(n.ctx, ast.Load)]
        if not uses or any(loop not in list(ancestors(u)) for u in uses):
            return False
        for u in uses:
            facts = _Paths(self.ctx, self.fi, u).facts()
            if not any(f.op == "lt" and f.pos and isinstance(f.left, ast.Name) and f.left.id == pos and self.bound(f.right) for f in facts):
                return False
        return True

    def below_bound(self, c: ast.AST, name: str, env: dict) -> bool:
        """the condition holds only if the number in `name` is below a bound: name < B, B > name, a <= name < B, conjunctions with such"""
        c = strip_cast(c)
        if isinstance(c, ast.BoolOp) and isinstance(c.op, ast.And):
            return any(self.below_bound(v, name, env) for v in c.values)
        if isinstance(c, ast.Compare):
            terms = [c.left, *c.comparators]
            for l, op, r in zip(terms, c.ops, terms[1:]):
                if isinstance(op, ast.Lt) and isinstance(l, ast.Name) and l.id == name and self.bound(_sub_env(r, env)):
                    return True
                if isinstance(op, ast.Gt) and isinstance(r, ast.Name) and r.id == name and self.bound(_sub_env(l, env)):
                    return True
        return False

    def folded(self, f: ast.AST | None, acc: str | None, elem: str | None, env: dict) -> str | None:
        """kind of f(<value of kind acc>, <value of kind elem>) for a two-argument callable: +, a lambda, a function nested in this one"""
        if acc is None or elem is None:
            return None
        if f is None or const_value(f) is None or self.concatenates(f):
            return "BYTES" if acc == elem == "BYTES" else None
        f = resolve(self.fi, f)
        if isinstance(f, ast.Lambda):
            a = f.args
            ps = [x.arg for x in [*a.posonlyargs, *a.args]]
            if len(ps) != 2 or a.vararg or a.kwarg or a.kwonlyargs:
                return None
            return self.kind(f.body, {**env, ps[0]: acc, ps[1]: elem})
        if isinstance(f, ast.Name) and not local_defs(self.fi, f.id) and f.id not in self.fi.params():
            defs = [n for n in walk_no_nested(self.fi.node) if isinstance(n, ast.FunctionDef) and n.name == f.id and n is not self.fi.node]
            if len(defs) == 1 and self.depth < 3 and not _is_generator(defs[0]):
                a = defs[0].args
                ps = [x.arg for x in [*a.posonlyargs, *a.args]]
                info = getattr(defs[0], "_info", None)
                if len(ps) != 2 or a.vararg or a.kwarg or a.kwonlyargs or info is None:
                    return None
                sub = _Prov(self.ctx, info, set(), {ps[0]: acc, ps[1]: elem}, self.depth + 1)
                rets = [r for r in walk_no_nested(defs[0]) if isinstance(r, ast.Return) and r is not None]
                falls = [u for u, lab in self.ctx.cfg(info).exit.pred if not isinstance(u.ast, ast.Return)]
                if not rets or falls:
                    return None
                k = self.unify([sub.kind(r.value, {}) for r in rets])
                return None if k == "*" else k
        return None

    def bind_target(self, target: ast.AST, iter_kind: str | None) -> dict:
        """kinds of the names a loop / comprehension target binds"""
        if isinstance(target, ast.Name):
            return {target.id: _ELEM.get(iter_kind)}
        out = {n.id: None for n in ast.walk(target) if isinstance(n, ast.Name)}
        if iter_kind == "PAIRS" and isinstance(target, (ast.Tuple, ast.List)) and len(target.elts) == 2 and isinstance(target.elts[1], ast.Name):
            out[target.elts[1].id] = "TOKEN"
        return out

    def kind(self, e: ast.AST | None, env: dict) -> str | None:  # noqa: C901, PLR0911, PLR0912
        e = strip_cast(e) if e is not None else None
        if e is None:
            return None
        e = self.canon(e) if not (env and set(env) & set(self.alias)) else e
        if isinstance(e, ast.Constant):
            return "BYTES" if isinstance(e.value, bytes) else None
        if isinstance(e, ast.Name):
            if e.id in env:
                return env[e.id]
            return self.local_kind(e.id)
        if isinstance(e, (ast.List, ast.Tuple, ast.Set)):
            if not e.elts:
                return "EMPTY"
            ks = {self.kind(x, env) for x in e.elts}
            return "CHUNKS" if ks == {"BYTES"} else "TOKENS" if ks == {"TOKEN"} else None
        if isinstance(e, ast.IfExp):
            return self.unify([self.kind(e.body, env), self.kind(e.orelse, env)])
        if isinstance(e, ast.BinOp) and isinstance(e.op, ast.Add):
            k = self.unify([self.kind(e.left, env), self.kind(e.right, env)])
            return k if k in ("BYTES", "CHUNKS", "TOKENS", "EMPTY", "*") else None
        if isinstance(e, ast.Attribute):
            if norm(e) == "self.token_chain":
                return "CHAIN"                    # the whole chain: only a bounded part of it may be handed out
            comps = self.components(e) if not env else None
            return self.unify([pv.kind(x, {}) for pv, x in comps]) if comps else None
        if isinstance(e, ast.Subscript):
            if isinstance(e.slice, ast.Slice):
                k = self.kind(e.value, env)
                if k == "CHAIN":
                    step = const_value(e.slice.step) if e.slice.step is not None else 1
                    return "TOKENS" if isinstance(step, int) and not isinstance(step, bool) and step > 0 and self.bound(_sub_env(e.slice.upper, env)) else None
                return k if k in ("BYTES", "CHUNKS", "TOKENS", "EMPTY") else None
            k = self.kind(e.value, env)
            if k == "PAIR":
                return "TOKEN" if const_value(e.slice) == 1 and not isinstance(const_value(e.slice), bool) else None
            if k == "CHAIN":
                if self.kind(e.slice, env) == "INDEX":
                    return "TOKEN"
                # a counter that a dominating test keeps below the bound: while index < opened: ... chain[index] ... index += 1
                i = strip_cast(e.slice)
                if not env and isinstance(i, ast.Name) and parent(e) is not None and self.counter(i.id):
                    facts = _Paths(self.ctx, self.fi, e).facts()
                    if any(f.op == "lt" and f.pos and isinstance(f.left, ast.Name) and f.left.id == i.id and self.bound(f.right) for f in facts):
                        return "TOKEN"
                return None
            if k is None and not env and _step_of(e) is not None:
                comps = self.components(e)
                return self.unify([pv.kind(x, {}) for pv, x in comps]) if comps else None
            return {"TOKENS": "TOKEN", "CHUNKS": "BYTES"}.get(k)
        if isinstance(e, (ast.ListComp, ast.SetComp, ast.GeneratorExp)):
            env2 = dict(env)
            for g in e.generators:
                k = self.kind(g.iter, env2)
                env2.update(self.bind_target(g.target, k))
                if k == "CPAIRS" and isinstance(g.target, (ast.Tuple, ast.List)) and len(g.target.elts) == 2 and all(isinstance(t, ast.Name) for t in g.target.elts):
                    # (position, token) pairs of the whole chain: the tokens whose position a filter keeps below the bound
                    i, t = g.target.elts[0].id, g.target.elts[1].id
                    if i != t and any(self.below_bound(c, i, env2) for c in g.ifs):
                        env2[t] = "TOKEN"
            return {"BYTES": "CHUNKS", "TOKEN": "TOKENS"}.get(self.kind(e.elt, env2))
        if isinstance(e, ast.Call):
            c = chain(e.func)
            if isinstance(e.func, ast.Attribute) and e.func.attr == "get_plaintext_signed" and not e.args and not e.keywords:
                return "BYTES" if self.kind(e.func.value, env) == "TOKEN" else None
            if isinstance(e.func, ast.Attribute) and e.func.attr == "join" and len(e.args) == 1 and not e.keywords and isinstance(const_value(e.func.value), bytes):
                return "BYTES" if self.kind(e.args[0], env) in ("CHUNKS", "EMPTY") else None
            if c in ("list", "tuple", "sorted", "reversed", "iter", "deque", "collections.deque") and len(e.args) == 1:
                k = self.kind(e.args[0], env)
                if k in ("PAIRS", "CHAIN", "CPAIRS", "INDEXES") and c in ("list", "tuple", "iter") and not e.keywords:
                    return k
                if k == "PAIRS" and c == "reversed" and not e.keywords:
                    return k
                return k if k in ("CHUNKS", "TOKENS", "EMPTY") else None
            lib = _lib(c)
            if lib is not None and not any(isinstance(x, ast.Starred) for x in e.args) and all(k.arg is not None for k in e.keywords):
                r = self.pipeline(lib, e, env)
                if r is not NotImplemented:
                    return r
            if c in ("list", "tuple", "deque", "collections.deque") and not e.args and not e.keywords:
                return "EMPTY"
            if c in ("bytes", "bytearray") and not e.keywords:
                return "BYTES" if not e.args or (len(e.args) == 1 and self.kind(e.args[0], env) == "BYTES") else None
            if c == "MissingResponsePayload" and not any(isinstance(x, ast.Starred) for x in e.args):
                out = arg(e, 0, "tokens")
                return "PAYLOAD" if out is not None and len(e.args) + len(e.keywords) == 1 and self.kind(out, env) == "BYTES" else None
            if c == "enumerate" and e.args and len(e.args) <= 2:
                k = self.kind(e.args[0], env)
                if k == "CHAIN":
                    start = arg(e, 1, "start")
                    return "CPAIRS" if start is None or (const_value(start) == 0 and not isinstance(const_value(start), bool)) else None
                return "PAIRS" if k == "TOKENS" else None
            if env:
                return None                       # a helper called with comprehension variables: not followed
            val = _pure_call_value(self.fi, e)
            if val is not None and not any(isinstance(n, ast.Name) and n.id.startswith("v_") for n in ast.walk(val)):
                return self.kind(val, env)        # a one-expression function (possibly of another module): what the call evaluates to
            fr = _follow(self.ctx, self.fi, e, "p_", generators=True)
            if fr is not None and self.depth < 3:
                sub = self.sub(fr)
                if sub is None:
                    return None
                if _is_generator(fr.hf.node):
                    ys = [n for n in walk_no_nested(fr.hf.node) if isinstance(n, (ast.Yield, ast.YieldFrom))]
                    ks = [sub.kind(y.value, {}) if isinstance(y, ast.Yield) else {"CHUNKS": "BYTES", "TOKENS": "TOKEN"}.get(sub.kind(y.value, {})) for y in ys]
                    return {"BYTES": "CHUNKS", "TOKEN": "TOKENS"}.get(self.unify(ks))
                rets = [r for r in walk_no_nested(fr.hf.node) if isinstance(r, ast.Return)]
                falls = [u for u, lab in self.ctx.cfg(fr.hf).exit.pred if not isinstance(u.ast, ast.Return)]
                if not rets or falls:
                    return None
                k = self.unify([sub.kind(r.value, {}) for r in rets])
                return None if k == "*" else k
        return None


_ELEM = {"TOKENS": "TOKEN", "CHUNKS": "BYTES", "PAIRS": "PAIR", "INDEXES": "INDEX"}
_CONT = {"TOKEN": "TOKENS", "BYTES": "CHUNKS", "PAIR": "PAIRS"}


class _PairIndex(ast.NodeTransformer):
    """p[0] -> the name `p#0` (the position in a (position, token) pair p)"""

    def __init__(self, name: str) -> None:
        self.name = name

    def visit_Subscript(self, n: ast.Subscript):  # noqa: N802
        if isinstance(n.value, ast.Name) and n.value.id == self.name and const_value(n.slice) == 0 and not isinstance(const_value(n.slice), bool):
            return ast.Name(id=self.name + "#0", ctx=ast.Load())
        return self.generic_visit(n)


def _lib(c: str | None) -> str | None:
    """the function named by a callee chain when it is a builtin or comes from itertools / functools / operator, else None"""
    if not c:
        return None
    parts = c.split(".")
    if len(parts) == 1:
        return c
    if parts[0] in ("itertools", "functools", "operator") and len(parts) == 2:
        return parts[1]
    return None


def _sub_env(e: ast.AST | None, env: dict) -> ast.AST | None:
    """a bound expression must not read comprehension variables"""
    if e is None or any(isinstance(n, ast.Name) and n.id in env for n in ast.walk(e)):
        return None
    return e


def rule_permitted(ctx: Ctx) -> None:  # noqa: C901, PLR0912
    repo = ctx.repo
    fi = _method(ctx, "IdentityCommunity", "on_request_missing", IC)
    from .c01 import classify_handler
    ctx.check(classify_handler(ctx, fi) == "authenticated", "permitted-range", fi, fi.node, "on_request_missing is authenticated", "token requests are not authenticated")
    peer = fi.params()[1]

    def is_send(c: ast.Call) -> bool:
        return chain(c.func) == "self.ez_send" and mentions(c, "MissingResponsePayload")

    def provenances(owner: FuncInfo, depth: int = 0) -> list:
        """one _Prov per way the owner of a send is reached from the handler"""
        if owner.node is fi.node:
            return [_Prov(ctx, fi, {peer})]
        out = []
        if depth < 3:
            for m, g, c in repo.callers_of_name(owner.name):
                if g is None or owner not in repo.resolve_call(g, c):
                    continue
                fr = _follow(ctx, g, c, "q_", generators=True)
                for up in provenances(g, depth + 1):
                    sub = up.sub(fr) if fr is not None else None
                    out.append(sub)
        return out
    snd = _sites_below(ctx, fi, is_send)
    ctx.anchor(snd, "MissingResponsePayload send")
    for owner, c, _fs, lift in snd:
        provs = provenances(owner)
        if not provs or any(pv is None for pv in provs):
            raise AnalysisError(f"undecided: how {owner.qualname} (sends MissingResponsePayload) is reached from on_request_missing")
        ok = all(arg(c, 0) is not None and pv.is_peer(arg(c, 0)) and pv.kind(arg(c, 1), {}) == "PAYLOAD" for pv in provs)
        ctx.check(ok, "permitted-range", owner, c, "response bytes derive only from token_chain[:permissions.get(peer, 0)] and go to the requester",
                  "tokens beyond the position opened to the requester (or to an unpermitted peer) can be handed out")
    n = 0
    writer = "IdentityCommunity.request_attestation_advertisement"
    # every community (one per pseudonym) starts with its own, empty permission map
    init = _method(ctx, "IdentityCommunity", "__init__", IC)
    icfg = ctx.cfg(init)
    fresh = []
    for st, t in stores(init, "self.permissions"):
        v = _stored_value(st, t)
        if v is not None and _fresh_empty_mapping(v):
            fresh.extend(icfg.nodes_for(st))
    for c in calls(init):
        # ... or a private helper that only __init__ calls does (always, when it is called)
        fr = _follow(ctx, init, c, "i_")
        if fr is not None and fr.hf.cls is init.cls and _only_reached_from(ctx, fr.hf, (init.qualname,)):
            hcfg = ctx.cfg(fr.hf)
            made = [x for st, t in stores(fr.hf, "self.permissions") if _stored_value(st, t) is not None and _fresh_empty_mapping(_stored_value(st, t)) for x in hcfg.nodes_for(st)]
            if made and hcfg.must_complete(hcfg.exit, made):
                fresh.extend(icfg.nodes_for(c))
    pview = _state_view(ctx, "permissions")
    if pview is not None:
        # the map lives in a state holder that __init__ constructs (its own __init__ always starts with an empty map)
        for st, t in stores(init, f"self.{pview[0]}"):
            v = strip_cast(_stored_value(st, t)) if _stored_value(st, t) is not None else None
            if isinstance(v, ast.Call) and repo.resolve_class_expr(init.module, v.func) is pview[2]:
                fresh.extend(icfg.nodes_for(st))
    per_instance = bool(fresh) and icfg.must_complete(icfg.exit, fresh)
    shared = repo.cls("IdentityCommunity", IC).lookup_attr("permissions")
    if shared is not None:
        n += 1                                     # the class-level definition is a place where the map is made
    ctx.check(per_instance, "permitted-range", init, (parent(shared) if isinstance(parent(shared), ast.stmt) else shared) if shared is not None and not per_instance else init.node,
              "IdentityCommunity.__init__ gives every community its own empty permission map (self.permissions = {})",
              "IdentityCommunity.permissions is not created afresh in __init__" + (f" (it is the class-level object `{norm(shared)}`, shared by all instances)" if shared is not None else "")
              + ": the communities of all pseudonyms in the process then read one permission map, so what the user of one pseudonym opened to a peer "
              "also hands that peer the token chain of every other pseudonym in on_request_missing")
    puses = list(repo.attribute_uses("permissions"))
    if pview is not None and pview[1] != "permissions":
        puses += [(m, f2, a) for m, f2, a in repo.attribute_uses(pview[1]) if f2 is not None and f2.node is pview[3].node]
    for m, f2, a in puses:
        if not m.relpath.startswith("ipv8/attestation/identity/"):
            continue
        p = parent(a)
        w = isinstance(a.ctx, ast.Store) or (isinstance(p, ast.Subscript) and isinstance(p.ctx, (ast.Store, ast.Del))) or \
            (isinstance(p, ast.Attribute) and p.attr in _MUTATORS and isinstance(parent(p), ast.Call))
        if not w:
            continue
        n += 1
        st = enclosing_stmt(a)
        if pview is not None and f2 is not None and f2.node is pview[3].node:
            ctx.check(_view_creation(ctx, "permissions", f2, a), "permitted-range", f2, st, "the state holder behind IdentityCommunity.permissions only creates the (empty) permission map",
                      "the state holder behind IdentityCommunity.permissions fills or shares the permission map instead of starting from an empty one of its own")
            continue
        if f2 is not None and f2.qualname == "IdentityCommunity.__init__":
            v = _stored_value(st, a) if isinstance(a.ctx, ast.Store) else None
            ctx.check(v is not None and _fresh_empty_mapping(v), "permitted-range", f2, st, "__init__ only creates the (empty) permission map",
                      "IdentityCommunity.__init__ fills or shares the permission map instead of starting from an empty one of its own")
            continue
        # the write as (key, value): permissions[k] = v / permissions.update({k: v}) / permissions.__setitem__(k, v)
        key = val = None
        call = parent(p) if isinstance(p, ast.Attribute) else None
        if isinstance(st, ast.Assign) and len(st.targets) == 1 and st.targets[0] is p and isinstance(p, ast.Subscript) and not isinstance(p.slice, ast.Slice):
            key, val = p.slice, st.value
        elif isinstance(st, ast.AugAssign) and st.target is a and isinstance(st.op, ast.BitOr) and isinstance(st.value, ast.Dict) and len(st.value.keys) == 1 and st.value.keys[0] is not None:
            key, val = st.value.keys[0], st.value.values[0]      # permissions |= {k: v}
        elif isinstance(call, ast.Call) and isinstance(st, ast.Expr) and st.value is call and not call.keywords:
            if p.attr == "update" and len(call.args) == 1 and isinstance(call.args[0], ast.Dict) and len(call.args[0].keys) == 1 and call.args[0].keys[0] is not None:
                key, val = call.args[0].keys[0], call.args[0].values[0]
            elif p.attr == "__setitem__" and len(call.args) == 2:
                key, val = call.args
        ok = f2 is not None and key is not None and norm(a.value) == "self"
        as_self = (lambda e: e)
        if not ok and f2 is not None and key is not None and f2.cls is None and isinstance(a.value, ast.Name) and _param_is_callers_peer(ctx, f2, a.value.id, writer, index=0):
            # a new module-level helper that is handed the community: its parameter is the writer's self at every call
            ok = True

            def as_self(e, recv=a.value.id):
                class Sub(ast.NodeTransformer):
                    def visit_Name(self, n):  # noqa: N802
                        return ast.Name(id="self", ctx=n.ctx) if n.id == recv else n
                return Sub().visit(clone(e))
        if ok and f2.qualname == writer:
            kk = resolve(f2, key)
            ok = isinstance(kk, ast.Name) and kk.id == f2.params()[1] and not local_defs(f2, f2.params()[1]) and _x(f2, val) == "len(self.token_chain)"
        elif ok:
            # a private helper that only request_attestation_advertisement calls, writing for the peer it was given
            kk = resolve(f2, key)
            ok = _only_reached_from(ctx, f2, (writer,)) and isinstance(kk, ast.Name) and _x(f2, as_self(val)) == "len(self.token_chain)" and _param_is_callers_peer(ctx, f2, kk.id, writer)
        ctx.check(ok, "permitted-range", f2 or m.relpath, st, "permissions written only for the peer chosen by the user, with the current chain length",
                  "the disclosure permission of a peer is written outside request_attestation_advertisement")
    ctx.floor("permitted-range", n, 2)


def _state_view(ctx: Ctx, attr: str):
    """
    (holder attribute, field, holder class, holder __init__) when IdentityCommunity.<attr> is no longer stored on the
    community but is a read-only @property `return self.<holder>.<field>` over a new private state-holder object that
    IdentityCommunity.__init__ (and nothing else) constructs and stores in self.<holder>, and whose __init__ always
    stores a fresh empty mapping in self.<field>.  Reading and subscripting `self.<attr>` then means the same map as
    before, created empty once per community.  None when <attr> is not such a view.
    """
    memo = ctx.repo.__dict__.setdefault("_c17_views", {})
    if attr in memo:
        return memo[attr]
    memo[attr] = None
    cls = ctx.repo.cls("IdentityCommunity", IC)
    m = cls.methods.get(attr)
    if m is None or m.decorator_names() != ["property"] or len(m.node.decorator_list) != 1 or m.is_async:
        return None
    if sum(1 for x in cls.node.body if isinstance(x, (ast.FunctionDef, ast.AsyncFunctionDef)) and x.name == attr) != 1 or attr in cls.attrs:
        return None                               # a setter / deleter / class-level value next to the getter
    body = [x for x in m.node.body if not (isinstance(x, ast.Expr) and isinstance(x.value, ast.Constant))]
    me = m.params()[0] if m.params() else None
    v = strip_cast(body[0].value) if len(body) == 1 and isinstance(body[0], ast.Return) and body[0].value is not None else None
    if not (isinstance(v, ast.Attribute) and isinstance(v.value, ast.Attribute) and isinstance(v.value.value, ast.Name) and v.value.value.id == me):
        return None
    h, f = v.value.attr, v.attr
    k = ctx.repo.attr_type(cls, h)
    if k is None or not _is_new_class(k) or k.subclasses or "__init__" not in k.methods:
        return None
    kinit = k.methods["__init__"]
    kcfg = ctx.cfg(kinit)
    kself = kinit.params()[0]
    made = [x for st, t in stores(kinit, f"{kself}.{f}") if _stored_value(st, t) is not None and _fresh_empty_mapping(_stored_value(st, t)) for x in kcfg.nodes_for(st)]
    if not made or not kcfg.must_complete(kcfg.exit, made):
        return None
    # self.<holder> is stored only by IdentityCommunity.__init__, as a newly constructed holder
    for _m2, f2, a in ctx.repo.attribute_uses(h):
        if isinstance(a.ctx, (ast.Store, ast.Del)):
            st = enclosing_stmt(a)
            val = _stored_value(st, a) if isinstance(a.ctx, ast.Store) else None
            val = strip_cast(val) if val is not None else None
            if f2 is None or f2.qualname != "IdentityCommunity.__init__" or not isinstance(val, ast.Call) or ctx.repo.resolve_class_expr(f2.module, val.func) is not k:
                return None
    # the holder's field is reached only through the property (and set up in the holder's __init__)
    if f != attr:
        for m2, f2, a in ctx.repo.attribute_uses(f):
            if not m2.relpath.startswith("ipv8/attestation/identity/") or f2 is None or f2.cls not in (k, cls):
                continue
            if f2.node is m.node or f2.node is kinit.node:
                continue
            raise AnalysisError(f"undecided: {f2.qualname} reaches the state behind IdentityCommunity.{attr} as `{norm(a)}`, not through the property")
    memo[attr] = (h, f, k, kinit)
    return memo[attr]


def _view_creation(ctx: Ctx, attr: str, f2: FuncInfo | None, a: ast.AST) -> bool:
    """the attribute store `a` in f2 is the holder's __init__ creating the (empty) map behind the view IdentityCommunity.<attr>"""
    view = _state_view(ctx, attr)
    if view is None or f2 is None or f2.node is not view[3].node or not isinstance(a.ctx, ast.Store) or a.attr != view[1]:
        return False
    v = _stored_value(enclosing_stmt(a), a)
    return v is not None and _fresh_empty_mapping(v)


def _stored_value(st: ast.AST, target: ast.AST) -> ast.AST | None:
    """the expression a (possibly annotated / tuple) assignment stores into `target`"""
    if isinstance(st, ast.AnnAssign):
        return st.value if st.target is target else None
    if not isinstance(st, ast.Assign) or len(st.targets) != 1:
        return None
    t = st.targets[0]
    if t is target:
        return st.value
    if isinstance(t, (ast.Tuple, ast.List)) and isinstance(st.value, (ast.Tuple, ast.List)) and len(t.elts) == len(st.value.elts) \
            and not any(isinstance(x, ast.Starred) for x in [*t.elts, *st.value.elts]):
        for a, b in zip(t.elts, st.value.elts):
            if a is target:
                return b
    return None


def _fresh_empty_mapping(v: ast.AST) -> bool:
    v = strip_cast(v)
    if isinstance(v, ast.Dict):
        return not v.keys
    if isinstance(v, ast.Call) and not v.keywords:
        c = chain(v.func)
        if c in ("dict", "OrderedDict", "collections.OrderedDict", "WeakKeyDictionary", "weakref.WeakKeyDictionary"):
            return not v.args
        if c in ("defaultdict", "collections.defaultdict"):
            return len(v.args) == 1 and norm(v.args[0]) in ("int", "lambda: 0")
    return False


def _targets(ctx: Ctx, m, g: FuncInfo | None, c: ast.Call) -> list:
    """resolve_call, plus `<imported module>.function(...)`"""
    if g is None:
        return []
    tg = ctx.repo.resolve_call(g, c)
    if not tg and isinstance(c.func, ast.Attribute) and isinstance(c.func.value, ast.Name) and c.func.value.id not in g.params() and not local_defs(g, c.func.value.id):
        r = ctx.repo.resolve_name(m, c.func.value.id)
        if isinstance(r, tuple) and r[0] == "module" and r[1] is not None and c.func.attr in r[1].functions:
            tg = [r[1].functions[c.func.attr]]
    return tg


def _param_is_callers_peer(ctx: Ctx, f2: FuncInfo, name: str, writer: str, depth: int = 0, index: int = 1) -> bool:
    """the (never rebound) parameter `name` of helper f2 is, at every call, the peer parameter (parameter number `index`) of `writer`"""
    if name not in f2.params() or local_defs(f2, name) or depth > 3:
        return False
    sites = [(g, c) for m, g, c in ctx.repo.callers_of_name(f2.name) if g is not None and f2 in _targets(ctx, m, g, c)]
    for g, c in sites:
        fr = _Frame(g, c, f2, "w_")
        a = resolve(g, fr.bind.get(name)) if fr.ok and name in fr.bind else None
        if not isinstance(a, ast.Name) or local_defs(g, a.id):
            return False
        if g.qualname == writer:
            if a.id != g.params()[index]:
                return False
        elif not _param_is_callers_peer(ctx, g, a.id, writer, depth + 1, index):
            return False
    return bool(sites)


def run(ctx: Ctx) -> None:
    rule_should_sign(ctx)
    rule_attested_memory(ctx)
    rule_own_attestation_recorded(ctx)
    rule_attest(ctx)
    rule_store(ctx)
    rule_permitted(ctx)
    ctx.assume("sequences of registrations are covered because every guard reads only the current registration of the hash (no accumulated state)")
    ctx.assume("signature primitives sound (trusted); chain verification is C16")


WITNESSES = [
    {"name": "pre-fix: already-attested check iterates over key bytes", "file": IC, "rule": "should-sign",
     "old": "            if pseudonym.database.get_authority(attestation) == self.my_peer.public_key.key_to_bin():",
     "new": "            if any(authority == self.my_peer.public_key.key_to_bin()\n                   for authority in pseudonym.database.get_authority(attestation)):"},
    {"name": "subject key check dropped", "file": IC, "rule": "should-sign",
     "old": "        if pseudonym.public_key.key_to_bin() != self.known_attestation_hashes[attribute_hash][2]:\n            self.logger.debug(\"Not signing %s, attribute doesn't belong to key!\", str(metadata))\n            return False\n",
     "new": ""},
    {"name": "wrong tuple index for key", "file": IC, "rule": "should-sign",
     "old": "        if pseudonym.public_key.key_to_bin() != self.known_attestation_hashes[attribute_hash][2]:",
     "new": "        if pseudonym.public_key.key_to_bin() != self.known_attestation_hashes[attribute_hash][0]:"},
    {"name": "registration never expires", "file": IC, "rule": "should-sign",
     "old": "        if time() > self.known_attestation_hashes[attribute_hash][1] + 300:", "new": "        if time() > self.known_attestation_hashes[attribute_hash][1] + 300 * 300:"},
    {"name": "name mismatch tolerated", "file": IC, "rule": "should-sign",
     "old": "        if transaction[\"name\"] != self.known_attestation_hashes[attribute_hash][0]:\n            self.logger.debug(\"Not signing %s, name does not match!\", str(metadata))\n            return False\n",
     "new": "        if transaction[\"name\"] != self.known_attestation_hashes[attribute_hash][0]:\n            self.logger.debug(\"Not signing %s, name does not match!\", str(metadata))\n"},
    {"name": "extra metadata accepted", "file": IC, "rule": "should-sign",
     "old": "        if (self.known_attestation_hashes[attribute_hash][3] is not None\n                and ({k: v for k, v in transaction.items() if k not in [\"name\", \"date\", \"schema\"]}\n                     != self.known_attestation_hashes[attribute_hash][3])):",
     "new": "        if (self.known_attestation_hashes[attribute_hash][3] is not None\n                and not ({k: v for k, v in transaction.items() if k not in [\"name\", \"date\", \"schema\"]}.items()\n                         >= self.known_attestation_hashes[attribute_hash][3].items())):"},
    {"name": "double attestation allowed", "file": IC, "rule": "should-sign",
     "old": "                self.logger.debug(\"Not signing %s, already attested!\", str(metadata))\n                return False\n",
     "new": "                self.logger.debug(\"Not signing %s, already attested!\", str(metadata))\n"},
    {"name": "time slot stores expiry not registration", "file": IC, "rule": "should-sign",
     "old": "        self.known_attestation_hashes[attribute_hash] = (name, time(), public_key, metadata)",
     "new": "        self.known_attestation_hashes[attribute_hash] = (name, public_key, time(), metadata)"},
    {"name": "registering one hash renews the other registrations of the subject", "file": IC, "rule": "should-sign",
     "old": "        self.known_attestation_hashes[attribute_hash] = (name, time(), public_key, metadata)",
     "new": "        for known_hash, known in self.known_attestation_hashes.items():\n            if known[2] == public_key:\n"
            "                self.known_attestation_hashes[known_hash] = (known[0], time(), *known[2:])\n"
            "        self.known_attestation_hashes[attribute_hash] = (name, time(), public_key, metadata)"},
    {"name": "registration stores a rewritten metadata (empty dict becomes 'no constraint')", "file": IC, "rule": "should-sign",
     "old": "        self.known_attestation_hashes[attribute_hash] = (name, time(), public_key, metadata)",
     "new": "        self.known_attestation_hashes[attribute_hash] = (name, time(), public_key, metadata if metadata else None)"},
    {"name": "authority is part of the attestation key (repaired twin)", "kind": "repaired", "file": ID, "rule": "own-attestation-recorded",
     "old": "                 PRIMARY KEY (public_key, metadata_pointer)\n", "new": "                 PRIMARY KEY (public_key, authority_key, metadata_pointer)\n"},
    {"name": "attest without should_sign", "file": IC, "rule": "attest-only-if-consented",
     "old": "                    if self.should_sign(pseudonym, credential.metadata):\n", "new": "                    if credential.metadata is not None:\n"},
    {"name": "attest although disclosure incorrect", "file": IC, "rule": "attest-only-if-consented",
     "old": "            if correct and any(attribute_hash in known_attributes for attribute_hash in required_attributes):",
     "new": "            if any(attribute_hash in known_attributes for attribute_hash in required_attributes):"},
    {"name": "substantiate ignores bad attestation", "file": IM, "rule": "attest-only-if-consented",
     "old": "            correct &= pseudonym.add_attestation(authority,", "new": "            correct |= pseudonym.add_attestation(authority,"},
    {"name": "chain verdict overruled after the fact", "file": IM, "rule": "attest-only-if-consented",
     "old": "        correct = pseudonym.tree.unserialize_public(serialized_tokens)\n",
     "new": "        correct = pseudonym.tree.unserialize_public(serialized_tokens)\n        correct = correct or len(pseudonym.tree.elements) > 0\n"},
    {"name": "stored attestation replaced by a later one", "file": ID, "rule": "should-sign",
     "old": "INSERT OR IGNORE INTO Attestations ", "new": "INSERT OR REPLACE INTO Attestations "},
    {"name": "attestation stored unverified", "file": IM, "rule": "store-only-valid",
     "old": "        if attestation.verify(public_key):\n            self.database.insert_attestation(self.public_key, public_key, attestation)\n            return True\n        return False",
     "new": "        self.database.insert_attestation(self.public_key, public_key, attestation)\n        return attestation.verify(public_key)"},
    {"name": "attestation attributed to our own key", "file": IC, "rule": "store-only-valid",
     "old": "        if self.pseudonym_manager.add_attestation(peer.public_key, attestation):", "new": "        if self.pseudonym_manager.add_attestation(attestation.get_hash() and peer.public_key or self.my_peer.public_key, attestation):"},
    {"name": "tokens handed out beyond permission", "file": IC, "rule": "permitted-range",
     "old": "        permitted = self.token_chain[:self.permissions.get(peer, 0)]", "new": "        permitted = self.token_chain[:self.permissions.get(peer, len(self.token_chain))]"},
    {"name": "permission map shared by all communities (class-level mutable default)", "rule": "permitted-range",
     "edits": [{"file": IC, "old": "        self.permissions: dict[Peer, int] = {}  # Map of peer to the highest index\n", "new": ""},
               {"file": IC, "old": "    settings_class = IdentitySettings\n", "new": "    settings_class = IdentitySettings\n    permissions: dict[Peer, int] = {}\n"}]},
    {"name": "verify() answers from a remembered verdict, whatever the key", "file": "ipv8/attestation/signed_object.py", "rule": "store-only-valid",
     "old": "        return self.crypto.is_valid_signature(public_key, self.get_plaintext(), self.signature)",
     "new": "        if getattr(self, \"_verified_before\", False):\n            return True\n"
            "        self._verified_before = self.crypto.is_valid_signature(public_key, self.get_plaintext(), self.signature)\n        return self._verified_before"},
    {"name": "permission granted on request", "file": IC, "rule": "permitted-range",
     "old": "        out = b\"\"\n        permitted = self.token_chain", "new": "        out = b\"\"\n        self.permissions.setdefault(peer, request.known + 1)\n        permitted = self.token_chain"},
]
