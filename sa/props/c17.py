"""C17 - Identity attestations and token disclosure require the owner's consent."""
from __future__ import annotations

import ast

from ..core import Ctx
from ..match import arg, call_name, calls, facts_at, local_defs, mentions, resolve, single_def, stores
from ..model import AnalysisError, FuncInfo, ancestors, chain, const_value, enclosing_stmt, norm, parent, strip_cast, walk_no_nested
from .c04 import _has_cond, _path_with

LEVEL = "other"
EXPLANATION = (
    "Consent as dominance facts that are history independent (each guard reads only the current registration of that "
    "hash): the single `return True` of should_sign is dominated by the negation of every refusal reason (unknown token, "
    "missing keys, unregistered hash, other subject key, older than 300 s, other name, other metadata, already "
    "attested) with tuple positions derived from add_known_hash; attestation creation and sending are dominated by a "
    "solicited, correctly substantiated disclosure and a truthy should_sign for that pseudonym and metadata; database "
    "inserts of attestations/metadata are dominated by verify() under the very key recorded; token hand-out derives only "
    "from token_chain[:permissions.get(peer, 0)], permissions written only for the chosen peer."
)

IC = "ipv8/attestation/identity/community.py"
IM = "ipv8/attestation/identity/manager.py"


def known_hash_layout(ctx: Ctx) -> dict[str, int]:
    fi = ctx.repo.method("IdentityCommunity", "add_known_hash", IC)
    sts = [s for s, t in stores(fi, "self.known_attestation_hashes[]")]
    ctx.anchor(sts, "known_attestation_hashes[...] = (...) in add_known_hash")
    tup = sts[0].value
    if not isinstance(tup, ast.Tuple):
        raise AnalysisError("anchor-lost: add_known_hash no longer stores a tuple literal")
    p = fi.params()
    layout = {}
    for i, e in enumerate(tup.elts):
        if norm(e) == p[2]:
            layout["name"] = i
        elif norm(e) == p[3]:
            layout["public_key"] = i
        elif norm(e) == p[4]:
            layout["metadata"] = i
        elif isinstance(e, ast.Call) and chain(e.func) in ("time", "time.time"):
            layout["time"] = i
    if set(layout) != {"name", "public_key", "metadata", "time"}:
        raise AnalysisError(f"anchor-lost: add_known_hash tuple layout {layout}")
    key_ok = norm(sts[0].targets[0].slice) == p[1]
    ctx.check(key_ok, "should-sign", fi, sts[0], "registration keyed by the attribute hash", "registration is keyed by something other than the attribute hash")
    return layout


def rule_should_sign(ctx: Ctx) -> None:
    repo = ctx.repo
    lay = known_hash_layout(ctx)
    fi = repo.method("IdentityCommunity", "should_sign", IC)
    cfg = ctx.cfg(fi)
    pseud, meta = fi.params()[1], fi.params()[2]
    trues = [r for r in walk_no_nested(fi.node) if isinstance(r, ast.Return) and const_value(r.value) is True]
    others = [r for r in walk_no_nested(fi.node) if isinstance(r, ast.Return) and const_value(r.value) not in (True, False)]
    ctx.check(len(trues) == 1 and not others, "should-sign", fi, fi.node, "should_sign has exactly one `return True` and otherwise returns False",
              "should_sign has several approving exits (or a non-constant verdict)")
    if len(trues) != 1:
        return
    site = trues[0]
    fs = facts_at(cfg, site)
    K = "self.known_attestation_hashes[attribute_hash]"

    def reg(field: str) -> str:
        return f"{K}[{lay[field]}]"
    ah = single_def(fi, "attribute_hash")
    ok_ah = ah is not None and norm(ah[0]) == f"{pseud}.tree.elements[{meta}.token_pointer].content_hash"
    tr = single_def(fi, "transaction")
    ok_tr = tr is not None and norm(tr[0]) == f"json.loads({meta}.serialized_json_dict)"
    ctx.check(ok_ah and ok_tr, "should-sign", fi, fi.node, "attribute hash = content hash of the token the metadata points to; transaction = the metadata's json",
              "should_sign judges a hash / json other than the disclosed metadata's")
    reasons = {
        "token pointer known": any(f.op == "in" and f.pos and norm(f.left) == f"{meta}.token_pointer" and norm(f.right) == f"{pseud}.tree.elements" for f in fs),
        "hash registered": any(f.op == "in" and f.pos and norm(f.left) == "attribute_hash" and norm(f.right) == "self.known_attestation_hashes" for f in fs),
        "subject key == registered key": any(f.op == "eq" and f.pos and {norm(f.left), norm(f.right)} == {f"{pseud}.public_key.key_to_bin()", reg("public_key")} for f in fs),
        "registration younger than 300 s": any(f.op == "lt" and not f.pos and norm(f.left) == f"{reg('time')} + 300" and norm(f.right) in ("time()", "time.time()") for f in fs),
        "name == registered name": any(f.op == "eq" and f.pos and {norm(f.left), norm(f.right)} == {"transaction['name']", reg("name")} for f in fs),
    }
    for k in ("name", "date", "schema"):
        reasons[f"required key {k}"] = any(f.op == "in" and f.pos and const_value(f.left) == k and norm(f.right) == "requested_keys" for f in fs)
    rk = single_def(fi, "requested_keys")
    reasons["requested_keys = keys of the transaction"] = rk is not None and norm(rk[0]) == "set(transaction.keys())"
    for what, ok in reasons.items():
        ctx.check(ok, "should-sign", fi, site, f"`return True` dominated by: {what}",
                  f"should_sign can approve although the condition `{what}` does not hold", [str(f) for f in fs])
    # registered metadata present => extra fields equal (conjunction: no path with both refusal atoms true reaches return True)
    A = f"{reg('metadata')} is not None"
    extra = [n for n in cfg.nodes if n.kind == "cond" and isinstance(n.ast, ast.Compare) and isinstance(n.ast.ops[0], ast.NotEq)
             and norm(n.ast.comparators[0]) == reg("metadata") and isinstance(n.ast.left, ast.DictComp)]
    ok = _has_cond(cfg, A) and len(extra) == 1
    if ok:
        dc = extra[0].ast.left
        filt = " ".join(norm(i) for g in dc.generators for i in g.ifs)
        ok = norm(dc.generators[0].iter) == "transaction.items()" and "not in ['name', 'date', 'schema']" in filt
        bad = _path_with(cfg, site, [(A, True), (norm(extra[0].ast), True)])
        ok = ok and not bad
    ctx.check(ok, "should-sign", fi, site, "`return True` unreachable when registered metadata exists and differs from the extra fields",
              "should_sign approves metadata that differs from the metadata fixed at registration")
    # already attested by us
    loops = [l for l in walk_no_nested(fi.node) if isinstance(l, ast.For) and "get_attestations_over" in norm(l.iter)]
    ok = False
    ga = repo.method("IdentityDatabase", "get_authority", "ipv8/attestation/identity/database.py")
    ga_ret = norm(ga.node.returns) if ga.node.returns is not None else ""
    single_key = ga_ret in ("bytes", "'bytes'")
    mykey = "self.my_peer.public_key.key_to_bin()"
    for l in loops:
        att = norm(l.target)
        for r in [r for r in ast.walk(l) if isinstance(r, ast.Return) and const_value(r.value) is False]:
            for f in facts_at(cfg, r):
                if f.op == "eq" and f.pos and {norm(f.left), norm(f.right)} == {f"{pseud}.database.get_authority({att})", mykey}:
                    ok = single_key
                if f.op == "truthy" and f.pos and isinstance(f.left, ast.Call) and chain(f.left.func) == "any" and mykey in norm(f.left) and "get_authority" in norm(f.left):
                    if single_key:
                        ctx.check(False, "should-sign", fi, f.left, "already-attested test compares whole keys",
                                  f"the 'already attested' refusal iterates over get_authority(), which returns ONE key as `{ga_ret}`: each element is an int and never equals "
                                  "our key (bytes), so the refusal is dead code and a replayed disclosure is attested again")
                    else:
                        ok = True
        ok = ok and norm(arg(l.iter, 0)) == meta and site.lineno > l.end_lineno
    ctx.check(ok, "should-sign", fi, site, "refuses when one of the attestations over this metadata is already by us", "should_sign attests the same metadata twice")
    # registrations are written only by add_known_hash
    for m, f2, a in repo.attribute_uses("known_attestation_hashes"):
        p = parent(a)
        w = isinstance(a.ctx, ast.Store) or (isinstance(p, ast.Subscript) and isinstance(p.ctx, (ast.Store, ast.Del))) or \
            (isinstance(p, ast.Attribute) and p.attr in ("update", "setdefault", "pop", "clear") and isinstance(parent(p), ast.Call))
        if w:
            ctx.check(f2 is not None and f2.qualname in ("IdentityCommunity.add_known_hash", "IdentityCommunity.__init__"), "should-sign", f2 or m.relpath, enclosing_stmt(a),
                      "registrations written only by add_known_hash", "the consent table is written outside add_known_hash")


def rule_attest(ctx: Ctx) -> None:
    repo = ctx.repo
    lay = known_hash_layout(ctx)
    fi = repo.method("IdentityCommunity", "_received_disclosure_for_attest", IC)
    cfg = ctx.cfg(fi)
    peer, disc = fi.params()[1], fi.params()[2]
    sites = [c for c in calls(fi) if call_name(c) == "create_attestation"] + [c for c in calls(fi, "self.ez_send") if "AttestPayload" in norm(c)]
    ctx.floor("attest-only-if-consented", len(sites), 2)
    sub = [c for c in calls(fi, "self.identity_manager.substantiate")]
    ok_sub = len(sub) == 1 and norm(arg(sub[0], 0)) == f"{peer}.public_key" and any(isinstance(a, ast.Starred) and norm(a.value) == disc for a in sub[0].args)
    ctx.check(ok_sub, "attest-only-if-consented", fi, fi.node, "disclosure substantiated under the authenticated sender's key", "the disclosure is validated under a key other than the sender's")
    for s in sites:
        fs = facts_at(cfg, s)
        sol = False
        for f in fs:
            if f.op == "truthy" and f.pos and isinstance(f.left, ast.Name):
                d = single_def(fi, f.left.id)
                if d is not None and isinstance(strip_cast(d[0]), ast.Call) and chain(strip_cast(d[0]).func) == "any" \
                        and f"[{lay['public_key']}] == {peer}.public_key.key_to_bin()" in norm(d[0]) and "self.known_attestation_hashes.values()" in norm(d[0]):
                    sol = True
        cor = False
        pvar = None
        for f in fs:
            if f.op == "truthy" and f.pos and isinstance(f.left, ast.Name):
                d = single_def(fi, f.left.id)
                if d is not None and d[1] == 0 and sub and strip_cast(d[0]) is sub[0]:
                    cor = True
        for st in walk_no_nested(fi.node):
            if isinstance(st, ast.Assign) and isinstance(st.targets[0], ast.Tuple) and strip_cast(st.value) in sub:
                pvar = norm(st.targets[0].elts[1])
        ss = None
        for f in fs:
            if f.op == "truthy" and f.pos and isinstance(f.left, ast.Call) and chain(f.left.func) == "self.should_sign":
                ss = f.left
        ss_ok = ss is not None and norm(arg(ss, 0)) == pvar and norm(arg(ss, 1)) == "credential.metadata"
        ctx.check(sol and cor and ss_ok, "attest-only-if-consented", fi, s,
                  "attesting dominated by: solicited sender, correct substantiation, should_sign(pseudonym, credential.metadata)",
                  f"an attestation can be created/sent without the owner's consent checks (solicited={sol} correct={cor} should_sign={ss_ok})", [str(f) for f in fs])
    for c in [c for c in calls(fi) if call_name(c) == "create_attestation"]:
        ok = norm(arg(c, 0)) == "credential.metadata" and "self.my_peer.key" in norm(arg(c, 1))
        ctx.check(ok, "attest-only-if-consented", fi, c, "attestation is over the approved metadata, signed with our key", "the attestation is over other metadata than the approved one")
    sb = repo.method("IdentityManager", "substantiate", IM)
    rets = [r for r in walk_no_nested(sb.node) if isinstance(r, ast.Return)]
    ok = len(rets) == 1 and norm(rets[0].value) == "(correct, pseudonym)"
    defs = local_defs(sb, "correct")
    ok = ok and any(v is not None and "unserialize_public" in norm(v) for _, v, _ in defs) and \
        any(isinstance(s, ast.AugAssign) and isinstance(s.op, ast.BitAnd) and "add_attestation" in norm(s.value) for s, v, _ in defs)
    ok = ok and not any(isinstance(s, (ast.Assign,)) and const_value(s.value) is True and s is not defs[0][0] for s, v, _ in defs)
    ctx.check(ok, "attest-only-if-consented", sb, sb.node, "substantiate ANDs tree.unserialize_public and every add_attestation result",
              "substantiate reports a disclosure as correct although a token or attestation failed verification")
    d = single_def(sb, "pseudonym")
    ctx.check(d is not None and norm(d[0]) == f"self.get_pseudonym({sb.params()[1]})", "attest-only-if-consented", sb, sb.node,
              "the pseudonym is the one of the given key", "substantiate loads the disclosure into another key's pseudonym")


def rule_store(ctx: Ctx) -> None:
    repo = ctx.repo
    pm = repo.cls("PseudonymManager", IM)
    n = 0
    for m, fi, c in [*repo.callers_of_name("insert_attestation"), *repo.callers_of_name("insert_metadata")]:
        if fi is None or not m.relpath.startswith("ipv8/attestation/identity/") or m.relpath.endswith("database.py"):
            continue
        n += 1
        ctx.check(fi.cls is pm, "store-only-valid", fi, c, f"{call_name(c)} called from PseudonymManager", f"{call_name(c)} is called outside PseudonymManager's verifying methods")
        if fi.cls is not pm:
            continue
        cfg = ctx.cfg(fi)
        fs = facts_at(cfg, c)
        if call_name(c) == "insert_attestation":
            att, auth = norm(arg(c, 2)), norm(arg(c, 1))
            ok = any(f.op == "truthy" and f.pos and isinstance(f.left, ast.Call) and norm(f.left.func) == f"{att}.verify" and norm(arg(f.left, 0)) == auth for f in fs)
            ok = ok and norm(arg(c, 0)) == "self.public_key"
            ctx.check(ok, "store-only-valid", fi, c, "attestation stored only if it verifies under the key recorded as its authority",
                      "an attestation is stored without being validly signed by the recorded authority", [str(f) for f in fs])
        else:
            md = norm(arg(c, 1))
            ok = any(f.op == "truthy" and f.pos and isinstance(f.left, ast.Call) and norm(f.left.func) == f"{md}.verify" and norm(arg(f.left, 0)) == "self.public_key" for f in fs)
            ctx.check(ok, "store-only-valid", fi, c, "metadata stored only if signed by the pseudonym's key", "metadata is stored without a valid owner signature", [str(f) for f in fs])
    ctx.floor("store-only-valid", n, 3)
    oa = repo.method("IdentityCommunity", "on_attest", IC)
    from .c01 import classify_handler
    ctx.check(classify_handler(ctx, oa) == "authenticated", "store-only-valid", oa, oa.node, "on_attest is authenticated", "on_attest is not authenticated")
    peer = oa.params()[1]
    aa = [c for c in calls(oa) if call_name(c) == "add_attestation"]
    un = [c for c in calls(oa, "Attestation.unserialize")]
    ok = len(aa) == 1 and norm(arg(aa[0], 0)) == f"{peer}.public_key" and len(un) == 1 and norm(arg(un[0], 1)) == f"{peer}.public_key" \
        and chain(aa[0].func) == "self.pseudonym_manager.add_attestation"
    ctx.check(ok, "store-only-valid", oa, oa.node, "incoming attestation verified and recorded under the authenticated sender's key",
              "an incoming attestation is attributed to a key other than the authenticated sender's")


def rule_permitted(ctx: Ctx) -> None:
    repo = ctx.repo
    fi = repo.method("IdentityCommunity", "on_request_missing", IC)
    from .c01 import classify_handler
    ctx.check(classify_handler(ctx, fi) == "authenticated", "permitted-range", fi, fi.node, "on_request_missing is authenticated", "token requests are not authenticated")
    peer = fi.params()[1]
    snd = [c for c in calls(fi, "self.ez_send") if "MissingResponsePayload" in norm(c)]
    ctx.anchor(snd, "MissingResponsePayload send")
    for c in snd:
        pl = arg(c, 1)
        out = arg(pl, 0) if isinstance(pl, ast.Call) else None
        ok = norm(arg(c, 0)) == peer and isinstance(out, ast.Name)
        if ok:
            # every definition of `out` is b"" or out += <serialized token of the permitted enumeration>
            for st, v, _ in local_defs(fi, out.id):
                if isinstance(st, ast.AugAssign):
                    src = resolve(fi, st.value)
                    loop = next((a for a in ancestors(st) if isinstance(a, ast.For)), None)
                    ok = ok and isinstance(src, ast.Call) and call_name(src) == "get_plaintext_signed" and loop is not None
                    if loop is not None:
                        it = loop.iter
                        base = it.args[0] if isinstance(it, ast.Call) and chain(it.func) == "enumerate" else it
                        pdef = resolve(fi, base)
                        tokvar = norm(loop.target.elts[1]) if isinstance(loop.target, ast.Tuple) else norm(loop.target)
                        ok = ok and norm(pdef) == f"self.token_chain[:self.permissions.get({peer}, 0)]" and chain(src.func.value) == tokvar
                else:
                    ok = ok and v is not None and const_value(v) == b""
        ctx.check(ok, "permitted-range", fi, c, "response bytes derive only from token_chain[:permissions.get(peer, 0)] and go to the requester",
                  "tokens beyond the position opened to the requester (or to an unpermitted peer) can be handed out")
    n = 0
    for m, f2, a in repo.attribute_uses("permissions"):
        if not m.relpath.startswith("ipv8/attestation/identity/"):
            continue
        p = parent(a)
        w = isinstance(a.ctx, ast.Store) or (isinstance(p, ast.Subscript) and isinstance(p.ctx, (ast.Store, ast.Del))) or \
            (isinstance(p, ast.Attribute) and p.attr in ("update", "setdefault", "pop", "clear") and isinstance(parent(p), ast.Call))
        if not w:
            continue
        n += 1
        st = enclosing_stmt(a)
        if f2 is not None and f2.qualname == "IdentityCommunity.__init__":
            continue
        ok = f2 is not None and f2.qualname == "IdentityCommunity.request_attestation_advertisement" and isinstance(st, ast.Assign) \
            and norm(st.targets[0]) == f"self.permissions[{f2.params()[1]}]" and norm(st.value) == "len(self.token_chain)"
        ctx.check(ok, "permitted-range", f2 or m.relpath, st, "permissions written only for the peer chosen by the user, with the current chain length",
                  "the disclosure permission of a peer is written outside request_attestation_advertisement")
    ctx.floor("permitted-range", n, 2)


def run(ctx: Ctx) -> None:
    rule_should_sign(ctx)
    rule_attest(ctx)
    rule_store(ctx)
    rule_permitted(ctx)
    ctx.assume("sequences of registrations are covered because every guard reads only the current registration of the hash (no accumulated state)")
    ctx.assume("signature primitives sound (trusted); chain verification is C16")


WITNESSES = [
    {"name": "pre-fix: already-attested check iterates over key bytes", "file": IC, "rule": "should-sign",
     "old": "            if pseudonym.database.get_authority(attestation) == self.my_peer.public_key.key_to_bin():",
     "new": "            if any(authority == self.my_peer.public_key.key_to_bin()\n                   for authority in pseudonym.database.get_authority(attestation)):"},
    {"name": "subject key check dropped", "file": IC, "rule": "should-sign",
     "old": "        if pseudonym.public_key.key_to_bin() != self.known_attestation_hashes[attribute_hash][2]:\n            self.logger.debug(\"Not signing %s, attribute doesn't belong to key!\", str(metadata))\n            return False\n",
     "new": ""},
    {"name": "wrong tuple index for key", "file": IC, "rule": "should-sign",
     "old": "        if pseudonym.public_key.key_to_bin() != self.known_attestation_hashes[attribute_hash][2]:",
     "new": "        if pseudonym.public_key.key_to_bin() != self.known_attestation_hashes[attribute_hash][0]:"},
    {"name": "registration never expires", "file": IC, "rule": "should-sign",
     "old": "        if time() > self.known_attestation_hashes[attribute_hash][1] + 300:", "new": "        if time() > self.known_attestation_hashes[attribute_hash][1] + 300 * 300:"},
    {"name": "name mismatch tolerated", "file": IC, "rule": "should-sign",
     "old": "        if transaction[\"name\"] != self.known_attestation_hashes[attribute_hash][0]:\n            self.logger.debug(\"Not signing %s, name does not match!\", str(metadata))\n            return False\n",
     "new": "        if transaction[\"name\"] != self.known_attestation_hashes[attribute_hash][0]:\n            self.logger.debug(\"Not signing %s, name does not match!\", str(metadata))\n"},
    {"name": "extra metadata accepted", "file": IC, "rule": "should-sign",
     "old": "        if (self.known_attestation_hashes[attribute_hash][3] is not None\n                and ({k: v for k, v in transaction.items() if k not in [\"name\", \"date\", \"schema\"]}\n                     != self.known_attestation_hashes[attribute_hash][3])):",
     "new": "        if (self.known_attestation_hashes[attribute_hash][3] is not None\n                and not ({k: v for k, v in transaction.items() if k not in [\"name\", \"date\", \"schema\"]}.items()\n                         >= self.known_attestation_hashes[attribute_hash][3].items())):"},
    {"name": "double attestation allowed", "file": IC, "rule": "should-sign",
     "old": "                self.logger.debug(\"Not signing %s, already attested!\", str(metadata))\n                return False\n",
     "new": "                self.logger.debug(\"Not signing %s, already attested!\", str(metadata))\n"},
    {"name": "time slot stores expiry not registration", "file": IC, "rule": "should-sign",
     "old": "        self.known_attestation_hashes[attribute_hash] = (name, time(), public_key, metadata)",
     "new": "        self.known_attestation_hashes[attribute_hash] = (name, public_key, time(), metadata)"},
    {"name": "attest without should_sign", "file": IC, "rule": "attest-only-if-consented",
     "old": "                    if self.should_sign(pseudonym, credential.metadata):\n", "new": "                    if credential.metadata is not None:\n"},
    {"name": "attest although disclosure incorrect", "file": IC, "rule": "attest-only-if-consented",
     "old": "            if correct and any(attribute_hash in known_attributes for attribute_hash in required_attributes):",
     "new": "            if any(attribute_hash in known_attributes for attribute_hash in required_attributes):"},
    {"name": "substantiate ignores bad attestation", "file": IM, "rule": "attest-only-if-consented",
     "old": "            correct &= pseudonym.add_attestation(authority,", "new": "            correct |= pseudonym.add_attestation(authority,"},
    {"name": "attestation stored unverified", "file": IM, "rule": "store-only-valid",
     "old": "        if attestation.verify(public_key):\n            self.database.insert_attestation(self.public_key, public_key, attestation)\n            return True\n        return False",
     "new": "        self.database.insert_attestation(self.public_key, public_key, attestation)\n        return attestation.verify(public_key)"},
    {"name": "attestation attributed to our own key", "file": IC, "rule": "store-only-valid",
     "old": "        if self.pseudonym_manager.add_attestation(peer.public_key, attestation):", "new": "        if self.pseudonym_manager.add_attestation(attestation.get_hash() and peer.public_key or self.my_peer.public_key, attestation):"},
    {"name": "tokens handed out beyond permission", "file": IC, "rule": "permitted-range",
     "old": "        permitted = self.token_chain[:self.permissions.get(peer, 0)]", "new": "        permitted = self.token_chain[:self.permissions.get(peer, len(self.token_chain))]"},
    {"name": "permission granted on request", "file": IC, "rule": "permitted-range",
     "old": "        out = b\"\"\n        permitted = self.token_chain", "new": "        out = b\"\"\n        self.permissions.setdefault(peer, request.known + 1)\n        permitted = self.token_chain"},
]
