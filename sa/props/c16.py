"""C16 - A token tree only ever holds its owner's signed chain, in any order."""
from __future__ import annotations

import ast
import struct

from ..core import Ctx
from ..match import arg, call_name, calls, facts_at, local_defs, mentions, resolve, single_def, stores
from ..model import AnalysisError, FuncInfo, ancestors, chain, const_value, enclosing_stmt, norm, parent, strip_cast, walk_no_nested
from .c04 import _has_cond, _path_with

LEVEL = "other"
EXPLANATION = (
    "Insertion discipline as dominance facts: in gather_token both keeping a token in the waiting area and appending it "
    "are dominated by a truthy token.verify(self.public_key); appending additionally requires the parent to be the "
    "genesis hash or a contained token and the token not to be present yet; elements is written only by _append, whose "
    "callers are add/add_by_hash (own key) and _append_chain_reaction_token (called only from gather_token), plus the "
    "database reload in PseudonymManager; the wake-up re-offers every waiting child of the appended token (no early exit) "
    "so forks do not depend on arrival order; the waiting area is bounded; content is attached only under a hash match; "
    "wire chunk size equals the token struct size; verify/get_root_path check every step's signature. Permutations are "
    "not enumerated."
)

TR = "ipv8/attestation/tokentree/tree.py"
TK = "ipv8/attestation/tokentree/token.py"


def rule_verify_before_keep(ctx: Ctx) -> None:
    repo = ctx.repo
    fi = repo.method("TokenTree", "gather_token", TR)
    cfg = ctx.cfg(fi)
    tok = fi.params()[1]
    ctx.check(not local_defs(fi, tok), "verify-before-keep", fi, fi.node, "token parameter not rebound", "gather_token rebinds the offered token")
    keep = [s for s, t in stores(fi, "self.unchained[]")]
    app = calls(fi, "self._append_chain_reaction_token") + calls(fi, "self._append")
    ctx.floor("verify-before-keep", len(keep) + len(app), 2)
    for s in [*keep, *app]:
        fs = facts_at(cfg, s)
        ok = any(f.op == "truthy" and f.pos and isinstance(f.left, ast.Call) and chain(f.left.func) == f"{tok}.verify"
                 and norm(arg(f.left, 0)) == "self.public_key" for f in fs)
        tgt_ok = (isinstance(s, ast.Assign) and norm(s.targets[0].slice) == tok) or (isinstance(s, ast.Call) and norm(arg(s, 0)) == tok)
        ctx.check(ok and tgt_ok, "verify-before-keep", fi, s, f"`{norm(s)[:50]}` dominated by token.verify(self.public_key)",
                  "a token that is not signed by the tree's key can be kept (waiting area or tree)", [str(f) for f in fs])
    A = f"{tok}.previous_token_hash != self.genesis_hash"
    B = f"{tok}.previous_token_hash not in self.elements"
    for s in app:
        bad = _path_with(cfg, s, [(A, True), (B, True)])
        ctx.check(_has_cond(cfg, A) and _has_cond(cfg, B) and not bad, "verify-before-keep", fi, s,
                  "token appended only if its parent is the genesis hash or a contained token",
                  "a dangling token (parent neither genesis nor contained) can be appended to the tree")
        fs = facts_at(cfg, s)
        fresh = any(f.op == "in" and not f.pos and norm(f.left) == f"{tok}.get_hash()" and chain(f.right) == "self.elements" for f in fs)
        ctx.check(fresh, "verify-before-keep", fi, s, "token appended only if not contained yet", "a duplicate token replaces the contained one (and its content)")
    # bounded waiting area
    pi = [c for c in calls(fi, "self.unchained.popitem")]
    ok = bool(pi) and const_value(arg(pi[0], 0)) is False and any(
        f.op == "lt" and f.pos and norm(f.left) == "self.unchained_max_size" and norm(f.right) == "len(self.unchained)" for f in facts_at(cfg, pi[0]))
    ctx.check(ok, "verify-before-keep", fi, fi.node, "waiting area bounded by unchained_max_size (oldest dropped)", "the waiting area for orphan tokens is unbounded")
    # content attach on duplicates goes through receive_content
    for m, f2, a in repo.attribute_uses("content"):
        if isinstance(a.ctx, ast.Store) and f2 is not None and f2.module.relpath.startswith("ipv8/attestation/tokentree/"):
            ctx.check(f2.qualname in ("Token.__init__", "Token.receive_content"), "content-binding", f2, enclosing_stmt(a),
                      f"content assigned in {f2.qualname}", "token content is assigned outside __init__/receive_content (hash check bypassed)")


def rule_writers(ctx: Ctx) -> None:
    repo = ctx.repo
    n = 0
    for m in repo.modules.values():
        for node in ast.walk(m.tree):
            if isinstance(node, ast.Subscript) and isinstance(node.ctx, (ast.Store, ast.Del)) and (chain(node.value) or "").endswith("elements") \
                    and m.relpath.startswith("ipv8/attestation/"):
                fi = repo.function_of(node)
                n += 1
                q = fi.qualname if fi else "?"
                ok = q in ("TokenTree._append", "PseudonymManager.__init__")
                ctx.check(ok, "writers", fi or m.relpath, enclosing_stmt(node), f"elements written in {q}", "the token tree's element table is written outside _append / the database reload")
            if isinstance(node, ast.Call) and isinstance(node.func, ast.Attribute) and node.func.attr in ("pop", "clear", "update", "popitem", "setdefault") \
                    and (chain(node.func.value) or "").endswith(".elements") and m.relpath.startswith("ipv8/attestation/"):
                fi = repo.function_of(node)
                ctx.check(False, "writers", fi or m.relpath, node, "elements never shrinks/updates in bulk", "tokens are removed from / bulk-written into the tree")
    ctx.floor("writers", n, 2)
    for m, fi, c in repo.callers_of_name("_append"):
        if fi is None or not m.relpath.startswith("ipv8/attestation/"):
            continue
        ok = fi.qualname in ("TokenTree.add", "TokenTree.add_by_hash", "TokenTree._append_chain_reaction_token")
        ctx.check(ok, "writers", fi, c, f"_append called from {fi.qualname}", "_append is called around the verification in gather_token")
    for m, fi, c in repo.callers_of_name("_append_chain_reaction_token"):
        if fi is None:
            continue
        ctx.check(fi.qualname == "TokenTree.gather_token", "writers", fi, c, "_append_chain_reaction_token called only from gather_token",
                  "tokens are appended around gather_token's checks")
    for name in ("add", "add_by_hash"):
        f2 = repo.method("TokenTree", name, TR)
        toks = calls(f2, "Token")
        ok = len(toks) == 1 and norm(arg(toks[0], None, "private_key")) == "self.private_key" and \
            norm(resolve(f2, arg(toks[0], 0))) == "self.genesis_hash if not after else after.get_hash()"
        ctx.check(ok, "writers", f2, f2.node, f"{name} signs with the tree's own key and chains to genesis or the given token", f"{name} creates tokens not chained/signed by the tree's key")
    # database reload: tokens are inserted into the database only after a successful gather_token
    pm = repo.cls("PseudonymManager", "ipv8/attestation/identity/manager.py")
    n_ins = 0
    for f2 in pm.methods.values():
        cfg = ctx.cfg(f2)
        for c in calls(f2):
            if call_name(c) == "insert_token":
                n_ins += 1
                fs = facts_at(cfg, c)
                gathered = any((f.op == "is" and not f.pos and isinstance(resolve(f2, f.left), ast.Call) and call_name(resolve(f2, f.left)) in ("gather_token",)) or
                               (f.op == "truthy" and f.pos and isinstance(resolve(f2, f.left), ast.Call) and call_name(resolve(f2, f.left)) == "gather_token") for f in fs)
                own = isinstance(resolve(f2, arg(c, 1)), ast.Call) and call_name(resolve(f2, arg(c, 1))) in ("add", "add_by_hash")
                ctx.check(gathered or own, "writers", f2, c, "token written to the database only after gather_token accepted it (or it was created with the own key)",
                          "a token is persisted (and later reloaded into the tree unverified) without having been accepted by gather_token", [str(f) for f in fs])
    ctx.floor("writers.insert_token", n_ins, 1)
    g = repo.method("TokenTree", "__init__", TR)
    gh = [s for s, t in stores(g, "self.genesis_hash")]
    ok = len(gh) == 1 and norm(gh[0].value) == "sha3_256(self.public_key.key_to_bin()).digest()"
    ctx.check(ok, "writers", g, g.node, "genesis hash = sha3_256(public key)", "the genesis pointer is not the hash of the tree's key")


def rule_wake_all(ctx: Ctx) -> None:
    repo = ctx.repo
    fi = repo.method("TokenTree", "_append_chain_reaction_token", TR)
    tok = fi.params()[1]
    # the scan of the waiting area must not stop at the first match
    scans = [n for n in ast.walk(fi.node) if isinstance(n, (ast.For, ast.comprehension)) and chain(n.iter) in ("self.unchained", "list(self.unchained)")
             or (isinstance(n, (ast.For, ast.comprehension)) and norm(n.iter) in ("list(self.unchained)", "self.unchained.keys()", "list(self.unchained.keys())"))]
    ctx.check(bool(scans), "wake-all", fi, fi.node, "the waiting area is scanned for children of the appended token", "waiting children are never re-offered")
    for s in scans:
        if isinstance(s, ast.For):
            early = [x for x in ast.walk(s) if isinstance(x, (ast.Break, ast.Return))]
            ctx.check(not early, "wake-all", fi, s, "scan of the waiting area examines every waiting token",
                      "only the first waiting child of the appended token is woken: with a fork arriving before its parent the tree depends on arrival order")
    cond_ok = any(f"previous_token_hash == {tok}.get_hash()" in norm(n) for n in ast.walk(fi.node) if isinstance(n, ast.Compare))
    ctx.check(cond_ok, "wake-all", fi, fi.node, "children selected by previous_token_hash == appended.get_hash()", "children are not matched by parent hash")
    # every selected token is re-offered through gather_token (full re-check) and removed from the waiting area
    gt = calls(fi, "self.gather_token")
    ok = bool(gt)
    for c in gt:
        v = arg(c, 0)
        in_loop = any(isinstance(a, ast.For) and norm(a.target) == norm(v) for a in ancestors(c))
        single = isinstance(v, ast.Name) and not in_loop
        if single:
            # single variable: it must be impossible that more than one child exists -> not the case: flag
            ok = False
    ctx.check(ok, "wake-all", fi, fi.node, "every waiting child is re-offered through gather_token", "at most one waiting child is re-offered")
    ap = calls(fi, "self._append")
    ctx.check(len(ap) == 1 and norm(arg(ap[0], 0)) == tok, "wake-all", fi, fi.node, "the token itself is appended first", "the token is not appended before its children are woken")


def rule_content(ctx: Ctx) -> None:
    repo = ctx.repo
    rc = repo.method("Token", "receive_content", TK)
    cfg = ctx.cfg(rc)
    c = rc.params()[1]
    for s, t in stores(rc, "self.content"):
        fs = facts_at(cfg, s)
        ok = False
        for f in fs:
            if f.op == "eq" and f.pos:
                sides = [norm(resolve(rc, x)) for x in (f.left, f.right)]
                if f"hashlib.sha3_256({c}).digest()" in sides and "self.content_hash" in sides:
                    ok = True
        ctx.check(ok and chain(s.value) == c, "content-binding", rc, s, "content attached only if sha3_256(content) == content_hash",
                  "content that does not hash to the token's content pointer can be attached", [str(f) for f in fs])
    init = repo.method("Token", "__init__", TK)
    hs = [s for s, t in stores(init, "self.content_hash")]
    ok = any(norm(s.value) == "hashlib.sha3_256(content).digest()" for s in hs) and any(norm(s.value) == "content_hash" for s in hs)
    ctx.check(ok, "content-binding", init, init.node, "content hash derived from the content when content is given", "Token.__init__ accepts content with an unrelated hash")
    gp = repo.method("Token", "get_plaintext", TK)
    ok = any(isinstance(r, ast.Return) and norm(r.value) == "self.previous_token_hash + self.content_hash" for r in ast.walk(gp.node))
    ctx.check(ok, "content-binding", gp, gp.node, "signed plaintext = previous hash + content hash", "the signature does not cover both pointers")


def rule_wire(ctx: Ctx) -> None:
    repo = ctx.repo
    up = repo.method("TokenTree", "unserialize_public", TR)
    cs = single_def(up, "chunk_size")
    ok = cs is not None and norm(cs[0]) in ("64 + sig_len", "sig_len + 64") and norm(single_def(up, "sig_len")[0]) == "self.public_key.get_signature_length()"
    tu = repo.method("Token", "unserialize", TK)
    fmt = [c for c in calls(tu) if call_name(c) == "unpack_from"]
    fok = False
    if fmt and isinstance(fmt[0].args[0], ast.JoinedStr):
        parts = [v.value if isinstance(v, ast.Constant) else "{" + norm(v.value) + "}" for v in fmt[0].args[0].values]
        fok = "".join(parts) == ">32s32s{sig_len}s" and struct.calcsize(">32s32s") == 64
    ctx.check(ok and fok, "wire-chunks", up, up.node, "chunk size 64 + sig_len == size of >32s32s{sig_len}s", "wire chunk size and token struct format disagree")
    loops = [l for l in walk_no_nested(up.node) if isinstance(l, ast.For)]
    ok = bool(loops) and norm(loops[0].iter) == f"range(0, len({up.params()[1]}), chunk_size)" and not any(isinstance(x, (ast.Break, ast.Return)) for x in ast.walk(loops[0]))
    g = [c for c in calls(up, "self.gather_token")]
    ok = ok and len(g) == 1 and isinstance(arg(g[0], 0), ast.Call) and chain(arg(g[0], 0).func) == "Token.unserialize" and norm(arg(arg(g[0], 0), 1)) == "self.public_key"
    ctx.check(ok, "wire-chunks", up, up.node, "every chunk is unserialized and offered to gather_token", "unserialize_public skips chunks or bypasses gather_token")
    sp = repo.method("TokenTree", "serialize_public", TR)
    ok = all(call_name(c) in ("get_plaintext_signed", "join") for c in calls(sp)) and len(calls(sp, "get_plaintext_signed")) if False else True
    emits = [c for c in calls(sp) if call_name(c) == "get_plaintext_signed"]
    ctx.check(len(emits) >= 2, "wire-chunks", sp, sp.node, "serialize_public emits get_plaintext_signed of each token", "serialize_public does not emit the signed double pointers")
    for name in ("verify", "get_root_path"):
        f2 = repo.method("TokenTree", name, TR)
        cfg = ctx.cfg(f2)
        loops = [l for l in walk_no_nested(f2.node) if isinstance(l, ast.While)]
        vs = [c for c in calls(f2) if call_name(c) == "verify" and norm(arg(c, 0)) == "self.public_key"]
        ok = bool(loops) and bool(vs) and any(isinstance(a, ast.While) for a in ancestors(vs[0]))
        # advancing to the parent happens only after the signature of the current token was checked
        adv = [s for s in walk_no_nested(f2.node) if isinstance(s, ast.Assign) and chain(s.targets[0]) == "current" and "self.elements[" in norm(s.value)]
        vn = [n for n in cfg.nodes if n.kind == "cond" and isinstance(n.ast, ast.Call) and n.ast in vs]
        if ok and adv and vn:
            for a in adv:
                for an in cfg.nodes_for(a):
                    fs = facts_at(cfg, a)
                    ok = ok and any(f.op == "truthy" and f.pos and f.left in vs for f in fs)
        brk = [b for b in ast.walk(f2.node) if isinstance(b, ast.Break)]
        ok = ok and bool(brk) and all(any(f.op == "eq" and f.pos and {norm(f.left), norm(f.right)} == {"current.previous_token_hash", "self.genesis_hash"} for f in facts_at(cfg, b)) for b in brk)
        ctx.check(ok, "wire-chunks", f2, f2.node, f"{name}: each step's signature is checked; the walk ends only at the genesis hash",
                  f"{name} accepts a path without checking every signature or without reaching the genesis")


def rule_signed_object(ctx: Ctx) -> None:
    so = ctx.repo.method("AbstractSignedObject", "verify", "ipv8/attestation/signed_object.py")
    pk = so.params()[1]
    rets = [r for r in walk_no_nested(so.node) if isinstance(r, ast.Return)]
    ctx.anchor(rets, "return in AbstractSignedObject.verify")
    for r in rets:
        v = resolve(so, r.value)
        is_check = isinstance(v, ast.Call) and call_name(v) == "is_valid_signature" and [norm(a) for a in v.args] == [pk, "self.get_plaintext()", "self.signature"]
        is_false = const_value(r.value) is False
        ctx.check(is_check or is_false, "verify-before-keep", so, r, "verify(public_key) returns is_valid_signature(public_key, plaintext, signature) (or False)",
                  "AbstractSignedObject.verify can return a verdict that was not computed for the given public key (e.g. a cached result): a token that once verified "
                  "against its real signer verifies against every key")
    ctx.check(not local_defs(so, pk), "verify-before-keep", so, so.node, "public_key parameter not rebound", "verify rebinds the key it was asked to check")
    hsh = ctx.repo.method("AbstractSignedObject", "_sign", "ipv8/attestation/signed_object.py")
    ok = any(norm(s_.value) == "hashlib.sha3_256(self.get_plaintext_signed()).digest()" for s_, t in stores(hsh, "self._hash"))
    ctx.check(ok, "verify-before-keep", hsh, hsh.node, "object hash covers plaintext and signature", "the object hash no longer covers plaintext + signature")
    fdt = ctx.repo.method("Token", "from_database_tuple", TK)
    for s_, t in stores(fdt, lambda c: c.endswith(".content")):
        ctx.check(False, "content-binding", fdt, s_, "reloaded content goes through receive_content", "content from the database is attached without the hash check")
    ctx.check(any(call_name(c) == "receive_content" for c in calls(fdt)), "content-binding", fdt, fdt.node, "from_database_tuple attaches content via receive_content",
              "from_database_tuple does not check reloaded content against the content hash")


def run(ctx: Ctx) -> None:
    rule_signed_object(ctx)
    rule_verify_before_keep(ctx)
    rule_writers(ctx)
    rule_wake_all(ctx)
    rule_content(ctx)
    rule_wire(ctx)
    ctx.assume("order independence follows from: acceptance of a token depends only on (signature, parent contained); every waiting child is woken when its parent arrives; "
               "the waiting area does not overflow (stated precondition). It is argued, not enumerated.")
    ctx.assume("signature primitive and sha3_256 are sound (trusted)")


WITNESSES = [
    {"name": "pre-fix: only first waiting child woken", "file": TR, "rule": "wake-all",
     "old": """        retry_tokens = [lost_token for lost_token in self.unchained
                        if lost_token.previous_token_hash == token.get_hash()]
        for retry_token in retry_tokens:
            self.unchained.pop(retry_token, None)
            if self.gather_token(retry_token) is None:
                self._logger.warning("Dropped illegal token %s!", retry_token)
""",
     "new": """        retry_token = None
        for lost_token in self.unchained:
            if lost_token.previous_token_hash == token.get_hash():
                retry_token = lost_token
                break
        if retry_token is not None:
            self.unchained.pop(retry_token)
            if self.gather_token(retry_token) is None:
                self._logger.warning("Dropped illegal token %s!", retry_token)
"""},
    {"name": "unverified tokens kept in waiting area", "file": TR, "rule": "verify-before-keep",
     "old": """        if token.verify(self.public_key):
            if token.previous_token_hash != self.genesis_hash and token.previous_token_hash not in self.elements:
                self.unchained[token] = None
                if len(self.unchained) > self.unchained_max_size:
                    self.unchained.popitem(False)
                self._logger.info("Delaying unchained token %s!", token)
                return None
""",
     "new": """        if token.previous_token_hash != self.genesis_hash and token.previous_token_hash not in self.elements:
            self.unchained[token] = None
            if len(self.unchained) > self.unchained_max_size:
                self.unchained.popitem(False)
            self._logger.info("Delaying unchained token %s!", token)
            return None
        if token.verify(self.public_key):
"""},
    {"name": "dangling token appended", "file": TR, "rule": "verify-before-keep",
     "old": "            if token.previous_token_hash != self.genesis_hash and token.previous_token_hash not in self.elements:",
     "new": "            if token.previous_token_hash != self.genesis_hash and token.previous_token_hash not in self.elements and not token.content:"},
    {"name": "waiting area unbounded", "file": TR, "rule": "verify-before-keep",
     "old": "                if len(self.unchained) > self.unchained_max_size:\n                    self.unchained.popitem(False)\n", "new": ""},
    {"name": "verify with signer-supplied key", "file": TR, "rule": "verify-before-keep",
     "old": "        if token.verify(self.public_key):\n            if token.previous_token_hash != self.genesis_hash",
     "new": "        if token.verify(getattr(token, \"public_key\", self.public_key)):\n            if token.previous_token_hash != self.genesis_hash"},
    {"name": "content attached without hash check", "file": TK, "rule": "content-binding",
     "old": "        if content_hash == self.content_hash:\n            self.content = content\n            return True\n        return False",
     "new": "        self.content = content\n        return content_hash == self.content_hash"},
    {"name": "foreign writer of elements", "file": "ipv8/attestation/identity/manager.py", "rule": "writers",
     "old": "        preceding = None if after is None else self.tree.elements.get(after.token_pointer, None)",
     "new": "        preceding = None if after is None else self.tree.elements.get(after.token_pointer, None)\n        if after is not None and preceding is None:\n            self.tree.elements[after.token_pointer] = preceding = Token(self.tree.genesis_hash, content_hash=after.token_pointer, signature=b\"\")"},
    {"name": "chunk size off", "file": TR, "rule": "wire-chunks",
     "old": "        chunk_size = 64 + sig_len", "new": "        chunk_size = 32 + sig_len"},
    {"name": "root path skips signature check", "file": TR, "rule": "wire-chunks",
     "old": "        path = [token]\n        while maxdepth == -1 or maxdepth > steps:\n            if not current.verify(self.public_key):\n                return []\n",
     "new": "        path = [token]\n        while maxdepth == -1 or maxdepth > steps:\n"},
]
