"""C16 - A token tree only ever holds its owner's signed chain, in any order."""
from __future__ import annotations

import ast
import struct

from ..core import Ctx
from ..match import Fact, arg, call_name, calls, expr_context_facts, fact_of, facts_at, local_defs, single_def, stores
from ..model import AnalysisError, FuncInfo, ancestors, chain, const_value, enclosing_stmt, norm, parent, set_parents, strip_cast, walk_no_nested

LEVEL = "other"
EXPLANATION = (
    "Insertion discipline as dominance facts: in gather_token both keeping a token in the waiting area and appending it "
    "are dominated by a truthy token.verify(self.public_key); appending additionally requires the parent to be the "
    "genesis hash or a contained token and the token not to be present yet; elements is written only by _append, whose "
    "callers are add/add_by_hash (own key) and _append_chain_reaction_token (called only from gather_token), plus the "
    "database reload in PseudonymManager; the wake-up re-offers every waiting child of the appended token (no early exit) "
    "so forks do not depend on arrival order; the waiting area is bounded; content is attached only under a hash match; "
    "wire chunk size equals the token struct size and every chunk is offered to gather_token unconditionally; "
    "verify/get_root_path check every step's signature. Permutations are not enumerated."
)

TR = "ipv8/attestation/tokentree/tree.py"
TK = "ipv8/attestation/tokentree/token.py"
SO = "ipv8/attestation/signed_object.py"

_COMPS = (ast.ListComp, ast.SetComp, ast.DictComp, ast.GeneratorExp)
_WRAPPERS = ("list", "tuple", "sorted", "reversed", "set", "frozenset")


# ------------------------------------------------------------------------------------ expression recognition helpers
def _clone(e: ast.AST) -> ast.AST:
    return ast.parse(ast.unparse(e), mode="eval").body


def _expand(fi: FuncInfo, e: ast.AST | None, depth: int = 4) -> ast.AST | None:
    """Copy of e in which every single-assignment local is replaced by its defining expression (hoisted locals undone)."""
    if e is None:
        return None

    class T(ast.NodeTransformer):
        def __init__(self, d: int) -> None:
            self.d = d

        def visit_Name(self, n: ast.Name):  # noqa: N802
            if isinstance(n.ctx, ast.Load) and self.d > 0:
                d = single_def(fi, n.id)
                if d is not None and d[1] is None and not isinstance(strip_cast(d[0]), (*_COMPS, ast.Lambda)):
                    return T(self.d - 1).visit(_clone(strip_cast(d[0])))
            return n

    return T(depth).visit(_clone(strip_cast(e)))


def _x(fi: FuncInfo, e: ast.AST | None) -> str | None:
    """Normalised text of e after undoing local aliases."""
    return None if e is None else norm(_expand(fi, e))


def _is_none(e: ast.AST | None) -> bool:
    return isinstance(e, ast.Constant) and e.value is None


def _sha3_arg(e: ast.AST | None) -> ast.AST | None:
    """X of `sha3_256(X).digest()` / `hashlib.sha3_256(X).digest()` (already expanded expression)."""
    if isinstance(e, ast.Call) and isinstance(e.func, ast.Attribute) and e.func.attr == "digest" and not e.args:
        inner = e.func.value
        if isinstance(inner, ast.Call) and (chain(inner.func) or "").split(".")[-1] == "sha3_256" and len(inner.args) == 1:
            return inner.args[0]
    return None


def _table_key(e: ast.AST | None, table: str) -> ast.AST | None:
    """K of `table.get(K[, None])` (already expanded expression)."""
    if isinstance(e, ast.Call) and chain(e.func) == table + ".get" and e.args and (len(e.args) == 1 or _is_none(e.args[1])):
        return e.args[0]
    return None


def _is_table(e: ast.AST, table: str) -> bool:
    return chain(e) in (table, table + ".keys()")


def _split(e: ast.AST, pol: bool) -> list[Fact]:
    """e has truthiness pol: atom facts where that is sound (and / or / not / chained comparison)."""
    e = strip_cast(e)
    if isinstance(e, ast.UnaryOp) and isinstance(e.op, ast.Not):
        return _split(e.operand, not pol)
    if isinstance(e, ast.BoolOp):
        if isinstance(e.op, ast.And) == pol:
            return [f for v in e.values for f in _split(v, pol)]
        return []
    return [fact_of(e, pol)]


def _facts(fi: FuncInfo, cfg, site) -> list[Fact]:
    """Dominating facts at site; a flag local (`ok = a == b` ... `if ok:`) is replaced by the facts of its definition."""
    out: list[Fact] = []
    for f in facts_at(cfg, site):
        out.append(f)
        if f.op == "truthy" and isinstance(f.left, ast.Name):
            d = single_def(fi, f.left.id)
            if d is not None and d[1] is None:
                out.extend(_split(_expand(fi, d[0]), f.pos))
    return out


def _membership(fi: FuncInfo, f: Fact, table: str = "self.elements") -> tuple[str, bool] | None:
    """(key text, is-contained) when fact f decides `key in table` (in / not in / .get(key) is None / truthy .get(key))."""
    if f.op == "in" and _is_table(_expand(fi, f.right), table):
        return _x(fi, f.left), f.pos
    if f.op == "is" and _is_none(f.right):
        k = _table_key(_expand(fi, f.left), table)
        if k is not None:
            return norm(k), not f.pos
    if f.op == "truthy":
        k = _table_key(_expand(fi, f.left), table)
        if k is not None:
            return norm(k), f.pos
    return None


def _is_verify_call(fi: FuncInfo, e: ast.AST | None, receiver: str) -> bool:
    """e (after undoing aliases) is `<receiver>.verify(self.public_key)`."""
    e = _expand(fi, e)
    return isinstance(e, ast.Call) and chain(e.func) == f"{receiver}.verify" and \
        norm(arg(e, 0, "public_key")) == "self.public_key" and len(e.args) + len(e.keywords) == 1


# ------------------------------------------------------------------------------------ "parent is known" as path property
class _ParentKnown:
    """
    Which outcomes of which conditions establish `tok.previous_token_hash == self.genesis_hash` or
    `tok.previous_token_hash in self.elements`.  Works on atoms, boolean combinations, flag locals and (boolean) helper
    methods of the same class that the normaliser did not inline.
    """

    def __init__(self, ctx: Ctx, fi: FuncInfo, tok: str, depth: int = 2) -> None:
        self.ctx, self.fi, self.tok, self.depth = ctx, fi, tok, depth
        self.kinds: set[str] = set()
        self.opaque: dict[str, set[bool]] = {}      # helper calls on tok that could not be decided, per outcome

    def atom(self, e: ast.AST) -> tuple[str, bool] | None:
        """(kind, truthiness that establishes the fact) for an atomic test."""
        prev = f"{self.tok}.previous_token_hash"
        f = fact_of(e, True)
        if f.op == "eq" and {_x(self.fi, f.left), _x(self.fi, f.right)} == {prev, "self.genesis_hash"}:
            return "genesis", f.pos
        m = _membership(self.fi, f)
        if m is not None and m[0] == prev:
            return "contained", m[1]
        return None

    def establishes(self, e: ast.AST, pol: bool) -> bool:
        """Does `e` having truthiness `pol` imply that the parent of tok is the genesis hash or a contained token?"""
        e = strip_cast(e)
        if isinstance(e, ast.UnaryOp) and isinstance(e.op, ast.Not):
            return self.establishes(e.operand, not pol)
        if isinstance(e, ast.BoolOp):
            rs = [self.establishes(v, pol) for v in e.values]
            return any(rs) if isinstance(e.op, ast.And) == pol else all(rs)
        if isinstance(e, ast.Constant):
            return bool(e.value) != pol          # this outcome is impossible
        if isinstance(e, ast.IfExp):
            return self.establishes(e.body, pol) and self.establishes(e.orelse, pol)
        if isinstance(e, ast.Name):
            d = single_def(self.fi, e.id)
            # sound for a stale flag too: the token is not rebound, elements only grows, the genesis hash is fixed
            return d is not None and d[1] is None and self.establishes(d[0], pol)
        a = self.atom(e)
        if a is not None:
            self.kinds.add(a[0])
            return a[1] == pol
        if isinstance(e, ast.Call) and self.depth > 0:
            r = self._helper(e, pol)
            if not r and chain(e.func) and chain(e.func).startswith("self.") and any(_x(self.fi, a) == self.tok for a in [*e.args, *[k.value for k in e.keywords]]):
                self.opaque.setdefault(norm(e), set()).add(pol)
            return r
        return False

    def _helper(self, call: ast.Call, pol: bool) -> bool:
        if not (isinstance(call.func, ast.Attribute) and chain(call.func.value) == "self" and self.fi.cls is not None):
            return False
        targets = self.ctx.repo.resolve_call(self.fi, call)
        if len(targets) != 1:
            return False
        h = targets[0]
        ps = h.params()[1:]
        p = next((ps[i] for i, a in enumerate(call.args) if i < len(ps) and _x(self.fi, a) == self.tok), None) or \
            next((k.arg for k in call.keywords if k.arg in ps and _x(self.fi, k.value) == self.tok), None)
        if p is None or local_defs(h, p):
            return False
        sub = _ParentKnown(self.ctx, h, p, self.depth - 1)
        cfg = self.ctx.cfg(h)
        edge = sub.edge_pred(cfg)
        rets = [r for r in walk_no_nested(h.node) if isinstance(r, ast.Return)]
        falls_off = any(not (n.kind == "stmt" and isinstance(n.ast, ast.Return)) for n, lab in cfg.exit.pred)
        if falls_off and not pol:
            return False                         # implicit `return None` is falsy
        for r in rets:
            v = r.value if r.value is not None else ast.Constant(value=None)
            if sub.establishes(v, pol):
                continue
            if all(cfg.must_pass_edges(n, edge) for n in cfg.nodes_for(r)):
                continue
            return False
        self.kinds |= sub.kinds
        return bool(rets)

    def edge_pred(self, cfg):
        est: dict = {}
        for n in cfg.nodes:
            if n.kind == "cond":
                labs = {pol for pol in (True, False) if self.establishes(n.ast, pol)}
                if labs:
                    est[n] = labs
        return lambda u, v, lab: lab in est.get(u, ())


# ------------------------------------------------------------------------------------ the raw writers of TokenTree.elements
def _element_stores(fi: FuncInfo):
    return [s for s, t in stores(fi, "self.elements[]") if not isinstance(s, ast.Delete)]


def _raw_appenders(ctx: Ctx) -> dict[str, FuncInfo]:
    """
    Methods of TokenTree that put a token into `elements` without any check of their own: the ones that store into
    self.elements directly and (transitively) the ones that hand a token to such a method.  add / add_by_hash (tokens
    created with the own key) and gather_token (the checked entry) are the guarded entry points, not raw appenders.
    """
    tt = ctx.repo.cls("TokenTree", TR)
    entry = {"add", "add_by_hash", "gather_token"}
    raw = {n: f for n, f in tt.methods.items() if n not in entry and _element_stores(f)}
    changed = True
    while changed:
        changed = False
        for n, f in tt.methods.items():
            if n in raw or n in entry:
                continue
            if any(isinstance(c.func, ast.Attribute) and chain(c.func.value) == "self" and c.func.attr in raw for c in calls(f)):
                raw[n] = f
                changed = True
    return raw


def _append_sites(fi: FuncInfo, raw: dict[str, FuncInfo]) -> list[tuple[ast.AST, ast.AST | None, ast.AST | None]]:
    """(site, stored token expr, key expr or None) for direct stores into self.elements and calls of raw appenders."""
    out = []
    for s in _element_stores(fi):
        tgt = next(t for t in (s.targets if isinstance(s, ast.Assign) else [s.target]) if chain(t) == "self.elements[]")
        out.append((s, getattr(s, "value", None), tgt.slice))
    for c in calls(fi):
        if isinstance(c.func, ast.Attribute) and chain(c.func.value) == "self" and c.func.attr in raw:
            out.append((c, arg(c, 0, raw[c.func.attr].params()[1] if len(raw[c.func.attr].params()) > 1 else None), None))
    return out


# ------------------------------------------------------------------------------------ rules
def rule_verify_before_keep(ctx: Ctx) -> None:
    repo = ctx.repo
    fi = repo.method("TokenTree", "gather_token", TR)
    cfg = ctx.cfg(fi)
    tok = fi.params()[1]
    raw = _raw_appenders(ctx)
    ctx.check(not local_defs(fi, tok), "verify-before-keep", fi, fi.node, "token parameter not rebound", "gather_token rebinds the offered token")
    keep = [(s, t.slice) for s, t in stores(fi, "self.unchained[]") if isinstance(s, ast.Assign)]
    app = [(s, v) for s, v, k in _append_sites(fi, raw)]
    ctx.floor("verify-before-keep", len(keep) + len(app), 2)
    for s, v in [*keep, *app]:
        fs = _facts(fi, cfg, s)
        ok = any(f.op == "truthy" and f.pos and _is_verify_call(fi, f.left, tok) for f in fs)
        tgt_ok = _x(fi, v) == tok
        ctx.check(ok and tgt_ok, "verify-before-keep", fi, s, f"`{norm(s)[:50]}` dominated by token.verify(self.public_key)",
                  "a token that is not signed by the tree's key can be kept (waiting area or tree)", [str(f) for f in fs])
    pk = _ParentKnown(ctx, fi, tok)
    edge = pk.edge_pred(cfg)
    for s, v in app:
        dominated = all(cfg.must_pass_edges(n, edge) for n in cfg.nodes_for(s))
        if not dominated and any(len(v) == 2 for v in pk.opaque.values()):
            raise AnalysisError("undecided: gather_token tests the token with a helper whose meaning could not be derived: " +
                                ", ".join(k for k, v in pk.opaque.items() if len(v) == 2))
        ctx.check(dominated and pk.kinds == {"genesis", "contained"}, "verify-before-keep", fi, s,
                  "token appended only if its parent is the genesis hash or a contained token",
                  "a dangling token (parent neither genesis nor contained) can be appended to the tree")
        fs = _facts(fi, cfg, s)
        fresh = any(_membership(fi, f) == (f"{tok}.get_hash()", False) for f in fs)
        ctx.check(fresh, "verify-before-keep", fi, s, "token appended only if not contained yet", "a duplicate token replaces the contained one (and its content)",
                  [str(f) for f in fs])
    # bounded waiting area: the oldest waiting token is dropped only when the area exceeds its maximum size
    evict = [c for c in calls(fi, "self.unchained.popitem")]
    ok = bool(evict) and all(const_value(arg(c, 0, "last")) is False for c in evict)
    if not evict:
        oldest = "next(iter(self.unchained))"
        evict = [c for c in calls(fi, "self.unchained.pop") if _x(fi, arg(c, 0)) == oldest] + \
                [s for s, t in stores(fi, "self.unchained[]") if isinstance(s, ast.Delete) and _x(fi, t.slice) == oldest]
        ok = bool(evict)
    for c in evict:
        exceeded = False
        for f in _facts(fi, cfg, c):
            if f.op == "lt":
                lt, rt = _x(fi, f.left), _x(fi, f.right)
                exceeded = exceeded or (f.pos and lt == "self.unchained_max_size" and rt == "len(self.unchained)") or \
                    (not f.pos and lt == "len(self.unchained)" and rt in ("self.unchained_max_size + 1", "1 + self.unchained_max_size"))
        ok = ok and exceeded
    ctx.check(ok, "verify-before-keep", fi, fi.node, "waiting area bounded by unchained_max_size (oldest dropped)", "the waiting area for orphan tokens is unbounded")
    # content attach on duplicates goes through receive_content
    for m, f2, a in repo.attribute_uses("content"):
        if isinstance(a.ctx, ast.Store) and f2 is not None and f2.module.relpath.startswith("ipv8/attestation/tokentree/"):
            ctx.check(f2.qualname in ("Token.__init__", "Token.receive_content"), "content-binding", f2, enclosing_stmt(a),
                      f"content assigned in {f2.qualname}", "token content is assigned outside __init__/receive_content (hash check bypassed)")


def _prev_pointer_ok(f2: FuncInfo, e: ast.AST | None) -> bool:
    """The previous-pointer of a token created by add/add_by_hash: the genesis hash without `after`, else after.get_hash()."""
    if e is None:
        return False
    after = f2.params()[2] if len(f2.params()) > 2 else "after"
    values = {"self.genesis_hash", f"{after}.get_hash()"}
    if isinstance(strip_cast(e), ast.Name) and not single_def(f2, e.id):
        # assigned on several paths (`p = genesis` / `if after: p = after.get_hash()`): every reaching value must be one of the two
        ds = local_defs(f2, e.id)
        return bool(ds) and all(v is not None and i is None and _x(f2, v) in values for s, v, i in ds) and \
            {_x(f2, v) for s, v, i in ds} == values
    e = _expand(f2, e)
    if not isinstance(e, ast.IfExp):
        return False
    none_when_true = {f"not {after}": True, after: False, f"{after} is None": True, f"{after} is not None": False,
                      f"None is {after}": True, f"None is not {after}": False}.get(norm(e.test))
    if none_when_true is None:
        return False
    g, a = (e.body, e.orelse) if none_when_true else (e.orelse, e.body)
    return norm(g) == "self.genesis_hash" and norm(a) == f"{after}.get_hash()"


def rule_writers(ctx: Ctx) -> None:
    repo = ctx.repo
    raw = _raw_appenders(ctx)
    tt = repo.cls("TokenTree", TR)
    n = 0
    for m in repo.modules.values():
        for node in ast.walk(m.tree):
            if isinstance(node, ast.Subscript) and isinstance(node.ctx, (ast.Store, ast.Del)) and (chain(node.value) or "").endswith("elements") \
                    and m.relpath.startswith("ipv8/attestation/"):
                fi = repo.function_of(node)
                n += 1
                q = fi.qualname if fi else "?"
                # inside TokenTree the raw appenders may store (their own token parameter: checked below) and so may
                # add / add_by_hash (the token they created with the own key: checked below); a store in gather_token
                # is an append that skipped the wake-up
                in_raw = fi is not None and fi.cls is tt and (fi.name in raw or fi.name in ("add", "add_by_hash")) and isinstance(node.ctx, ast.Store)
                ok = in_raw or q == "PseudonymManager.__init__"
                ctx.check(ok, "writers", fi or m.relpath, enclosing_stmt(node), f"elements written in {q}", "the token tree's element table is written outside _append / the database reload")
            if isinstance(node, ast.Call) and isinstance(node.func, ast.Attribute) and node.func.attr in ("pop", "clear", "update", "popitem", "setdefault") \
                    and (chain(node.func.value) or "").endswith(".elements") and m.relpath.startswith("ipv8/attestation/"):
                fi = repo.function_of(node)
                ctx.check(False, "writers", fi or m.relpath, node, "elements never shrinks/updates in bulk", "tokens are removed from / bulk-written into the tree")
    ctx.floor("writers", n, 2)
    # closed set of raw appenders: private, each stores / hands on exactly its own (never rebound) token parameter under
    # that token's hash, and is called only from add / add_by_hash (own key), from another raw appender, or - the
    # waking appender only - from gather_token
    for name, f in raw.items():
        tokp = f.params()[1] if len(f.params()) > 1 else None
        ctx.check(name.startswith("_") and tokp is not None and not local_defs(f, tokp), "writers", f, f.node,
                  f"{name} is private and appends the token it is given", "a public / token-rebinding method writes the element table unchecked")
        for s, v, k in _append_sites(f, raw):
            if name == "_append_chain_reaction_token":
                continue                    # its sites are judged by wake-all (`the token itself is appended first`)
            ok = _x(f, v) == tokp and (k is None or _x(f, k) == f"{tokp}.get_hash()")
            ctx.check(ok, "writers", f, s, f"{name} appends its own token parameter under its hash", "a token other than the checked one is written into the tree")
        for m, fi, c in repo.callers_of_name(name):
            if fi is None or not m.relpath.startswith("ipv8/attestation/"):
                continue
            if name == "_append_chain_reaction_token":
                ctx.check(fi.qualname == "TokenTree.gather_token", "writers", fi, c, "_append_chain_reaction_token called only from gather_token",
                          "tokens are appended around gather_token's checks")
                continue
            ok = fi.cls is tt and chain(c.func) == f"self.{name}" and (fi.name in ("add", "add_by_hash") or fi.name in raw)
            ctx.check(ok, "writers", fi, c, f"{name} called from {fi.qualname}", f"{name} is called around the verification in gather_token")
    for name in ("add", "add_by_hash"):
        f2 = repo.method("TokenTree", name, TR)
        toks = calls(f2, "Token")
        ok = len(toks) == 1 and _x(f2, arg(toks[0], 3, "private_key")) == "self.private_key" and _prev_pointer_ok(f2, arg(toks[0], 0, "previous_token_hash"))
        sites = _append_sites(f2, raw)
        ok = ok and bool(sites) and all(_x(f2, v) == _x(f2, toks[0]) for s, v, k in sites)
        ctx.check(ok, "writers", f2, f2.node, f"{name} signs with the tree's own key and chains to genesis or the given token", f"{name} creates tokens not chained/signed by the tree's key")
    # database reload: tokens are inserted into the database only after a successful gather_token
    pm = repo.cls("PseudonymManager", "ipv8/attestation/identity/manager.py")
    n_ins = 0
    for f2 in pm.methods.values():
        cfg = ctx.cfg(f2)
        for c in calls(f2):
            if call_name(c) == "insert_token":
                n_ins += 1
                fs = _facts(f2, cfg, c)
                tokx = _x(f2, arg(c, 1, "token"))

                def _gathered(e: ast.AST) -> bool:
                    e = _expand(f2, e)
                    return isinstance(e, ast.Call) and call_name(e) == "gather_token" and _x(f2, arg(e, 0, "token")) == tokx
                gathered = any((f.op == "is" and not f.pos and _is_none(f.right) and _gathered(f.left)) or
                               (f.op == "truthy" and f.pos and _gathered(f.left)) for f in fs)
                made = _expand(f2, arg(c, 1, "token"))
                own = isinstance(made, ast.Call) and call_name(made) in ("add", "add_by_hash")
                ctx.check(gathered or own, "writers", f2, c, "token written to the database only after gather_token accepted it (or it was created with the own key)",
                          "a token is persisted (and later reloaded into the tree unverified) without having been accepted by gather_token", [str(f) for f in fs])
    ctx.floor("writers.insert_token", n_ins, 1)
    g = repo.method("TokenTree", "__init__", TR)
    gh = [s for s, t in stores(g, "self.genesis_hash")]
    ok = bool(gh) and all(isinstance(s, (ast.Assign, ast.AnnAssign)) and norm(_sha3_arg(_expand(g, s.value))) == "self.public_key.key_to_bin()" for s in gh)
    ctx.check(ok, "writers", g, g.node, "genesis hash = sha3_256(public key)", "the genesis pointer is not the hash of the tree's key")


def _unwrap_iter(fi: FuncInfo, e: ast.AST) -> ast.AST:
    """Strip list(...) / tuple(...) / sorted(...) / .keys() / .copy() around an iterated collection."""
    e = _expand(fi, e)
    while True:
        if isinstance(e, ast.Call) and isinstance(e.func, ast.Name) and e.func.id in _WRAPPERS and len(e.args) == 1:
            e = e.args[0]
        elif isinstance(e, ast.Call) and isinstance(e.func, ast.Attribute) and e.func.attr in ("keys", "copy") and not e.args:
            e = e.func.value
        else:
            return e


def _loop_of(node: ast.AST, stop: ast.AST):
    """Innermost for-loop / comprehension generator whose body evaluates node: (loop node, generator or None)."""
    prev = node
    for a in ancestors(node):
        if a is stop:
            return None, None
        if isinstance(a, (ast.For, ast.AsyncFor)) and prev is not a.iter and prev is not a.target:
            return a, None
        if isinstance(a, _COMPS) and not (a.generators and prev is a.generators[0] and _inside(node, a.generators[0].iter)):
            return a, a.generators[-1]
        prev = a
    return None, None


def _inside(node: ast.AST, root: ast.AST) -> bool:
    return node is root or any(a is root for a in ancestors(node))


def rule_wake_all(ctx: Ctx) -> None:
    repo = ctx.repo
    fi = repo.method("TokenTree", "_append_chain_reaction_token", TR)
    cfg = ctx.cfg(fi)
    tok = fi.params()[1]
    raw = _raw_appenders(ctx)
    ctx.check(not local_defs(fi, tok), "wake-all", fi, fi.node, "token parameter not rebound", "_append_chain_reaction_token rebinds the appended token")
    # the scan of the waiting area must not stop at the first match
    scans = [n for n in ast.walk(fi.node) if isinstance(n, (ast.For, ast.comprehension)) and chain(_unwrap_iter(fi, n.iter)) == "self.unchained"]
    ctx.check(bool(scans), "wake-all", fi, fi.node, "the waiting area is scanned for children of the appended token", "waiting children are never re-offered")
    for s in scans:
        if isinstance(s, ast.For):
            early = [x for x in ast.walk(s) if isinstance(x, (ast.Break, ast.Return))]
            ctx.check(not early, "wake-all", fi, s, "scan of the waiting area examines every waiting token",
                      "only the first waiting child of the appended token is woken: with a fork arriving before its parent the tree depends on arrival order")
    scan_vars = {norm(s.target) for s in scans}
    cond_ok = False
    for n in ast.walk(fi.node):
        if isinstance(n, ast.Compare) and len(n.ops) == 1 and isinstance(n.ops[0], (ast.Eq, ast.NotEq)):
            sides = {_x(fi, n.left), _x(fi, n.comparators[0])}
            cond_ok = cond_ok or any(sides == {f"{v}.previous_token_hash", f"{tok}.get_hash()"} for v in scan_vars)
    ctx.check(cond_ok, "wake-all", fi, fi.node, "children selected by previous_token_hash == appended.get_hash()", "children are not matched by parent hash")
    # every selected token is re-offered through gather_token (full re-check)
    gt = calls(fi, "self.gather_token")
    ok = bool(gt)
    for c in gt:
        v = arg(c, 0, "token")
        if len(c.args) + len(c.keywords) != 1:
            ok = False                      # nothing but the token may be passed (no `already verified` shortcuts)
        loop, gen = _loop_of(c, fi.node)
        target = gen.target if gen is not None else loop.target if loop is not None else None
        if target is None or norm(target) != norm(v):
            if any(isinstance(a, ast.While) for a in ancestors(c)):
                raise AnalysisError("undecided: waiting children are re-offered from a while-loop in _append_chain_reaction_token")
            ok = False                      # a single variable: at most one child is re-offered
            continue
        it = gen.iter if gen is not None else loop.iter
        ok = ok and _derives_from_scan(fi, it, loop if gen is None else gen, scans)
    ctx.check(ok, "wake-all", fi, fi.node, "every waiting child is re-offered through gather_token", "at most one waiting child is re-offered")
    sites = _append_sites(fi, raw)
    first = bool(sites) and all(_x(fi, v) == tok and (k is None or _x(fi, k) == f"{tok}.get_hash()") for s, v, k in sites)
    app_nodes = [n for s, v, k in sites for n in cfg.nodes_for(s)]
    before = all(cfg.must_complete(n, app_nodes) for c in gt for n in cfg.nodes_for(c))
    ctx.check(first and before, "wake-all", fi, fi.node, "the token itself is appended first", "the token is not appended before its children are woken")


def _derives_from_scan(fi: FuncInfo, it: ast.AST, loop: ast.AST, scans: list) -> bool:
    """The collection iterated by the re-offering loop is the result of a complete scan of the waiting area."""
    if any(loop is s for s in scans):
        return True
    e = strip_cast(it)
    while isinstance(e, ast.Call) and isinstance(e.func, ast.Name) and e.func.id in _WRAPPERS and len(e.args) == 1:
        e = e.args[0]
    if isinstance(e, _COMPS):
        return any(g is s for g in e.generators[:1] for s in scans)
    if not isinstance(e, ast.Name):
        return False
    for stmt, val, idx in local_defs(fi, e.id):
        v = strip_cast(val) if val is not None else None
        while isinstance(v, ast.Call) and isinstance(v.func, ast.Name) and v.func.id in _WRAPPERS and len(v.args) == 1:
            v = v.args[0]
        if isinstance(v, _COMPS) and any(v.generators[0] is s for s in scans):
            return True
    for c in calls(fi):
        if isinstance(c.func, ast.Attribute) and c.func.attr in ("append", "add") and chain(c.func.value) == e.id and \
                any(a is s for a in ancestors(c) for s in scans if isinstance(s, ast.For)):
            return True
    return False


def _unconditional_in_source(fi: FuncInfo, callee: str) -> bool:
    """
    Decided on the source text as written (before load-time normalisation): fi calls self.<callee> exactly once and not
    in a conditionally evaluated expression position.  Needed because the alias elimination substitutes
    `r = self.f(x)` / `ok = ok and r is not None` into `ok = ok and self.f(x) is not None`, which would make an
    unconditional call look short-circuited.
    """
    try:
        tree = ast.parse(fi.module.src)
    except SyntaxError:
        return False
    set_parents(tree)
    for cls in [c for c in ast.walk(tree) if isinstance(c, ast.ClassDef) and fi.cls is not None and c.name == fi.cls.name]:
        for fn in [f for f in cls.body if isinstance(f, (ast.FunctionDef, ast.AsyncFunctionDef)) and f.name == fi.name]:
            found = [c for c in walk_no_nested(fn) if isinstance(c, ast.Call) and chain(c.func) == f"self.{callee}"]
            return len(found) == 1 and not expr_context_facts(found[0]) and not any(isinstance(a, (ast.IfExp, *_COMPS, ast.Lambda)) for a in ancestors(found[0]))
    return False


def _never_both_missing(cfg, a_nodes: list, b_nodes: list) -> bool:
    """No normal path entry -> a -> exit that avoids every node of b."""
    pre = cfg.reach(cut_nodes=b_nodes)
    for a in a_nodes:
        if a in pre and not cfg.always_followed_by(a, b_nodes):
            return False
    return True


def rule_content(ctx: Ctx) -> None:
    repo = ctx.repo
    rc = repo.method("Token", "receive_content", TK)
    cfg = ctx.cfg(rc)
    c = rc.params()[1]
    ctx.check(not local_defs(rc, c), "content-binding", rc, rc.node, "content parameter not rebound", "receive_content rebinds the content it checks")
    for s, t in stores(rc, "self.content"):
        fs = _facts(rc, cfg, s)
        ok = False
        for f in fs:
            if f.op == "eq" and f.pos:
                sides = [_expand(rc, x) for x in (f.left, f.right)]
                if any(norm(_sha3_arg(x)) == c for x in sides) and any(norm(x) == "self.content_hash" for x in sides):
                    ok = True
        ctx.check(ok and _x(rc, getattr(s, "value", None)) == c, "content-binding", rc, s, "content attached only if sha3_256(content) == content_hash",
                  "content that does not hash to the token's content pointer can be attached", [str(f) for f in fs])
    init = repo.method("Token", "__init__", TK)
    icfg = ctx.cfg(init)
    cp = "content"
    hs = [s for s, t in stores(init, "self.content_hash") if isinstance(s, (ast.Assign, ast.AnnAssign))]
    for s in hs:
        if isinstance(s.value, ast.Name) and local_defs(init, s.value.id) and single_def(init, s.value.id) is None:
            raise AnalysisError(f"undecided: Token.__init__ stores a content hash that is (re)assigned on several paths: `{norm(s)}`")
    derived = [s for s in hs if norm(_sha3_arg(_expand(init, s.value))) == cp]
    given = [s for s in hs if _x(init, s.value) == "content_hash"]
    attach = [s for s, t in stores(init, "self.content") if isinstance(s, (ast.Assign, ast.AnnAssign)) and s.value is not None and not _is_none(_expand(init, s.value))]
    ok = bool(derived) and bool(given) and len(derived) + len(given) == len(hs) and all(_x(init, s.value) == cp for s in attach) and not local_defs(init, cp) and \
        _never_both_missing(icfg, [n for s in attach for n in icfg.nodes_for(s)], [n for s in derived for n in icfg.nodes_for(s)])
    ctx.check(ok, "content-binding", init, init.node, "content hash derived from the content when content is given", "Token.__init__ accepts content with an unrelated hash")
    gp = repo.method("Token", "get_plaintext", TK)
    rets = [r for r in walk_no_nested(gp.node) if isinstance(r, ast.Return)]
    ok = bool(rets) and all(_x(gp, r.value) == "self.previous_token_hash + self.content_hash" for r in rets)
    ctx.check(ok, "content-binding", gp, gp.node, "signed plaintext = previous hash + content hash", "the signature does not cover both pointers")


def _walk_to_root(ctx: Ctx, f2: FuncInfo, name: str) -> None:
    """verify / get_root_path: every token on the walk is signature-checked; the walk succeeds only at the genesis hash."""
    cfg = ctx.cfg(f2)
    loops = [l for l in walk_no_nested(f2.node) if isinstance(l, ast.While)]
    # the steps: `<cursor> = self.elements[...]` inside the loop
    steps = []
    for s in walk_no_nested(f2.node):
        if isinstance(s, ast.Assign) and len(s.targets) == 1 and isinstance(s.targets[0], ast.Name) and any(isinstance(a, ast.While) for a in ancestors(s)):
            v = _expand(f2, s.value)
            if (isinstance(v, ast.Subscript) and chain(v.value) == "self.elements") or _table_key(v, "self.elements") is not None:
                steps.append(s)
    if loops and not steps:
        raise AnalysisError(f"undecided: no step `<cursor> = self.elements[...]` recognised in TokenTree.{name}")
    cursors = {s.targets[0].id for s in steps}
    ok = bool(loops) and len(cursors) == 1
    if ok:
        cur = next(iter(cursors))
        ver = [n for n in cfg.nodes if n.kind == "cond" and _is_verify_call(f2, n.ast, cur) and any(isinstance(a, ast.While) for a in ancestors(n.ast))]
        gen = {}
        for n in cfg.nodes:
            if n.kind == "cond":
                f = fact_of(n.ast, True)
                if f.op == "eq" and {_x(f2, f.left), _x(f2, f.right)} == {f"{cur}.previous_token_hash", "self.genesis_hash"}:
                    gen[n] = f.pos
        # paths are followed from every (re)definition of the cursor: the facts must hold for the *current* token
        defs = [n for s, v, i in local_defs(f2, cur) for n in cfg.nodes_for(s)]
        starts = [cfg.entry] + [v for d in defs for v, lab in d.succ if lab != "exc"]
        unverified = cfg.reach(starts, cut_edge=lambda u, v, lab: u in ver and lab is True)
        not_root = cfg.reach(starts, cut_edge=lambda u, v, lab: u in gen and lab is gen[u])
        ok = bool(ver)
        # advancing to the parent happens only after the signature of the current token was checked
        ok = ok and all(n not in unverified for s in steps for n in cfg.nodes_for(s))
        # leaving the walk successfully: break, or a non-empty result returned from inside the loop
        done = [b for l in loops for b in ast.walk(l) if isinstance(b, ast.Break)]
        done += [r for l in loops for r in ast.walk(l) if isinstance(r, ast.Return) and r.value is not None and not isinstance(r.value, ast.Constant)
                 and not (isinstance(r.value, (ast.List, ast.Tuple, ast.Set, ast.Dict)) and not getattr(r.value, "elts", getattr(r.value, "keys", None)))]
        if not done and any("genesis_hash" in norm(l.test) for l in loops):
            raise AnalysisError(f"undecided: TokenTree.{name} ends its walk through the loop condition")
        ok = ok and bool(done) and all(n not in unverified and n not in not_root for b in done for n in cfg.nodes_for(b))
    ctx.check(ok, "wire-chunks", f2, f2.node, f"{name}: each step's signature is checked; the walk ends only at the genesis hash",
              f"{name} accepts a path without checking every signature or without reaching the genesis")


def rule_wire(ctx: Ctx) -> None:
    repo = ctx.repo
    up = repo.method("TokenTree", "unserialize_public", TR)
    cfg = ctx.cfg(up)
    data = up.params()[1]
    tu = repo.method("Token", "unserialize", TK)
    tparams = [p for p in tu.params() if p != "cls"]          # data, public_key, offset
    # struct format of one token: constant prefix + `{signature length}s`
    fixed = None
    fmt = [c for c in calls(tu) if call_name(c) == "unpack_from"]
    if fmt and len(tparams) >= 3:
        f0 = _expand(tu, arg(fmt[0], 0, "format"))
        if isinstance(f0, ast.JoinedStr) and len(f0.values) == 3 and isinstance(f0.values[0], ast.Constant) and isinstance(f0.values[1], ast.FormattedValue) \
                and isinstance(f0.values[2], ast.Constant) and f0.values[2].value == "s" and norm(f0.values[1].value) == f"{tparams[1]}.get_signature_length()" \
                and _x(tu, arg(fmt[0], 1, "buffer")) == tparams[0] and _x(tu, arg(fmt[0], 2, "offset")) == tparams[2]:
            try:
                fixed = struct.calcsize(f0.values[0].value)
            except struct.error:
                fixed = None
    g = [c for c in calls(up, "self.gather_token")]
    loop, gen = _loop_of(g[0], up.node) if len(g) == 1 else (None, None)
    it = _expand(up, gen.iter if gen is not None else loop.iter) if loop is not None else None
    var = norm(gen.target if gen is not None else loop.target) if loop is not None else None
    step = None
    if isinstance(it, ast.Call) and chain(it.func) == "range" and len(it.args) == 3 and not it.keywords and const_value(it.args[0]) == 0 \
            and norm(it.args[1]) == f"len({data})":
        step = it.args[2]
    size_ok = False
    if isinstance(step, ast.BinOp) and isinstance(step.op, ast.Add):
        consts = [repo.resolve_const(up.module, x, up.cls) for x in (step.left, step.right)]
        ints = [v for v in consts if isinstance(v, int) and not isinstance(v, bool)]
        sig = [x for x in (step.left, step.right) if norm(x) == "self.public_key.get_signature_length()"]
        size_ok = len(ints) == 1 and len(sig) == 1 and fixed is not None and ints[0] == fixed
    ctx.check(size_ok, "wire-chunks", up, up.node, "chunk size 64 + sig_len == size of >32s32s{sig_len}s", "wire chunk size and token struct format disagree")
    ok = loop is not None and step is not None
    if ok:
        un = _expand(up, arg(g[0], 0, "token"))
        ok = isinstance(un, ast.Call) and chain(un.func) == "Token.unserialize" and norm(arg(un, 0, tparams[0])) == data and \
            norm(arg(un, 1, tparams[1])) == "self.public_key" and norm(arg(un, 2, tparams[2])) == var and len(g[0].args) + len(g[0].keywords) == 1
    every = ok
    if ok and gen is None:
        ok = not any(isinstance(x, (ast.Break, ast.Return)) for x in ast.walk(loop))
        # no iteration completes without the gather_token call having been evaluated
        gn = cfg.nodes_for(g[0])
        for ln in cfg.nodes_for(loop):
            r = cfg.reach([v for v, lab in ln.succ if lab is True], cut_nodes=gn, follow_exc=False)
            every = every and ln not in r and cfg.exit not in r
    elif ok:
        consumer = parent(loop)
        full = not isinstance(loop, ast.GeneratorExp) or (isinstance(consumer, ast.Call) and chain(consumer.func) in (*_WRAPPERS, "sum", "min", "max"))
        if isinstance(loop, ast.GeneratorExp) and not isinstance(consumer, ast.Call):
            raise AnalysisError("undecided: unserialize_public offers the chunks from a generator whose consumer is not visible")
        every = every and full and len(loop.generators) == 1 and not gen.ifs and _inside(g[0], getattr(loop, "elt", getattr(loop, "value", None)))
    ctx.check(ok, "wire-chunks", up, up.node, "every chunk is unserialized and offered to gather_token", "unserialize_public skips chunks or bypasses gather_token")
    if ok:
        cond = [str(f) for f in expr_context_facts(g[0])]
        if cond and _unconditional_in_source(up, "gather_token"):
            cond = []           # the call was moved next to its only use by the load-time alias elimination, not by the author
        ctx.check(every and not cond, "wire-chunks", up, enclosing_stmt(g[0]), "gather_token is evaluated for every chunk, whatever the earlier chunks returned",
                  "unserialize_public offers a chunk to gather_token only while all earlier chunks were accepted (short-circuit / conditional call): "
                  "None is the normal result for a token that arrives before its parent, so a tip-first serialisation (serialize_public(up_to=...)) "
                  "no longer reloads to the same tree", cond)
    sp = repo.method("TokenTree", "serialize_public", TR)
    emits = [c for c in calls(sp) if call_name(c) == "get_plaintext_signed"]
    ctx.check(len(emits) >= 2, "wire-chunks", sp, sp.node, "serialize_public emits get_plaintext_signed of each token", "serialize_public does not emit the signed double pointers")
    for name in ("verify", "get_root_path"):
        _walk_to_root(ctx, repo.method("TokenTree", name, TR), name)


def rule_signed_object(ctx: Ctx) -> None:
    so = ctx.repo.method("AbstractSignedObject", "verify", SO)
    pk = so.params()[1]
    rets = [r for r in walk_no_nested(so.node) if isinstance(r, ast.Return)]
    ctx.anchor(rets, "return in AbstractSignedObject.verify")
    for r in rets:
        v = _expand(so, r.value)
        is_check = isinstance(v, ast.Call) and call_name(v) == "is_valid_signature" and len(v.args) + len(v.keywords) == 3 and \
            [norm(arg(v, i, k)) for i, k in enumerate(("ec_key", "data", "signature"))] == [pk, "self.get_plaintext()", "self.signature"]
        is_false = const_value(r.value) is False
        ctx.check(is_check or is_false, "verify-before-keep", so, r, "verify(public_key) returns is_valid_signature(public_key, plaintext, signature) (or False)",
                  "AbstractSignedObject.verify can return a verdict that was not computed for the given public key (e.g. a cached result): a token that once verified "
                  "against its real signer verifies against every key")
    ctx.check(not local_defs(so, pk), "verify-before-keep", so, so.node, "public_key parameter not rebound", "verify rebinds the key it was asked to check")
    hsh = ctx.repo.method("AbstractSignedObject", "_sign", SO)
    signed = "self.get_plaintext() + self.signature"
    gps = ctx.repo.method("AbstractSignedObject", "get_plaintext_signed", SO)
    gps_rets = [r for r in walk_no_nested(gps.node) if isinstance(r, ast.Return)]
    gps_ok = bool(gps_rets) and all(_x(gps, r.value) == signed for r in gps_rets)
    ok = False
    for s_, t in stores(hsh, "self._hash"):
        covered = _sha3_arg(_expand(hsh, getattr(s_, "value", None)))
        ok = ok or norm(covered) == signed or (norm(covered) == "self.get_plaintext_signed()" and gps_ok)
    ctx.check(ok, "verify-before-keep", hsh, hsh.node, "object hash covers plaintext and signature", "the object hash no longer covers plaintext + signature")
    fdt = ctx.repo.method("Token", "from_database_tuple", TK)
    for s_, t in stores(fdt, lambda c: c.endswith(".content")):
        ctx.check(False, "content-binding", fdt, s_, "reloaded content goes through receive_content", "content from the database is attached without the hash check")
    ctx.check(any(call_name(c) == "receive_content" for c in calls(fdt)), "content-binding", fdt, fdt.node, "from_database_tuple attaches content via receive_content",
              "from_database_tuple does not check reloaded content against the content hash")


def run(ctx: Ctx) -> None:
    rule_signed_object(ctx)
    rule_verify_before_keep(ctx)
    rule_writers(ctx)
    rule_wake_all(ctx)
    rule_content(ctx)
    rule_wire(ctx)
    ctx.assume("order independence follows from: acceptance of a token depends only on (signature, parent contained); every waiting child is woken when its parent arrives; "
               "the waiting area does not overflow (stated precondition). It is argued, not enumerated.")
    ctx.assume("signature primitive and sha3_256 are sound (trusted)")


WITNESSES = [
    {"name": "pre-fix: only first waiting child woken", "file": TR, "rule": "wake-all",
     "old": """        retry_tokens = [lost_token for lost_token in self.unchained
                        if lost_token.previous_token_hash == token.get_hash()]
        for retry_token in retry_tokens:
            self.unchained.pop(retry_token, None)
            if self.gather_token(retry_token) is None:
                self._logger.warning("Dropped illegal token %s!", retry_token)
""",
     "new": """        retry_token = None
        for lost_token in self.unchained:
            if lost_token.previous_token_hash == token.get_hash():
                retry_token = lost_token
                break
        if retry_token is not None:
            self.unchained.pop(retry_token)
            if self.gather_token(retry_token) is None:
                self._logger.warning("Dropped illegal token %s!", retry_token)
"""},
    {"name": "unverified tokens kept in waiting area", "file": TR, "rule": "verify-before-keep",
     "old": """        if token.verify(self.public_key):
            if token.previous_token_hash != self.genesis_hash and token.previous_token_hash not in self.elements:
                self.unchained[token] = None
                if len(self.unchained) > self.unchained_max_size:
                    self.unchained.popitem(False)
                self._logger.info("Delaying unchained token %s!", token)
                return None
""",
     "new": """        if token.previous_token_hash != self.genesis_hash and token.previous_token_hash not in self.elements:
            self.unchained[token] = None
            if len(self.unchained) > self.unchained_max_size:
                self.unchained.popitem(False)
            self._logger.info("Delaying unchained token %s!", token)
            return None
        if token.verify(self.public_key):
"""},
    {"name": "dangling token appended", "file": TR, "rule": "verify-before-keep",
     "old": "            if token.previous_token_hash != self.genesis_hash and token.previous_token_hash not in self.elements:",
     "new": "            if token.previous_token_hash != self.genesis_hash and token.previous_token_hash not in self.elements and not token.content:"},
    {"name": "waiting area unbounded", "file": TR, "rule": "verify-before-keep",
     "old": "                if len(self.unchained) > self.unchained_max_size:\n                    self.unchained.popitem(False)\n", "new": ""},
    {"name": "verify with signer-supplied key", "file": TR, "rule": "verify-before-keep",
     "old": "        if token.verify(self.public_key):\n            if token.previous_token_hash != self.genesis_hash",
     "new": "        if token.verify(getattr(token, \"public_key\", self.public_key)):\n            if token.previous_token_hash != self.genesis_hash"},
    {"name": "content attached without hash check", "file": TK, "rule": "content-binding",
     "old": "        if content_hash == self.content_hash:\n            self.content = content\n            return True\n        return False",
     "new": "        self.content = content\n        return content_hash == self.content_hash"},
    {"name": "foreign writer of elements", "file": "ipv8/attestation/identity/manager.py", "rule": "writers",
     "old": "        preceding = None if after is None else self.tree.elements.get(after.token_pointer, None)",
     "new": "        preceding = None if after is None else self.tree.elements.get(after.token_pointer, None)\n        if after is not None and preceding is None:\n            self.tree.elements[after.token_pointer] = preceding = Token(self.tree.genesis_hash, content_hash=after.token_pointer, signature=b\"\")"},
    {"name": "chunk size off", "file": TR, "rule": "wire-chunks",
     "old": "        chunk_size = 64 + sig_len", "new": "        chunk_size = 32 + sig_len"},
    {"name": "root path skips signature check", "file": TR, "rule": "wire-chunks",
     "old": "        path = [token]\n        while maxdepth == -1 or maxdepth > steps:\n            if not current.verify(self.public_key):\n                return []\n",
     "new": "        path = [token]\n        while maxdepth == -1 or maxdepth > steps:\n"},
    {"name": "reload stops offering chunks after the first parked token (short-circuit and)", "file": TR, "rule": "wire-chunks",
     "old": "            correct &= self.gather_token(Token.unserialize(s, self.public_key, offset=i)) is not None",
     "new": "            correct = correct and self.gather_token(Token.unserialize(s, self.public_key, offset=i)) is not None"},
    {"name": "reload stops at the first parked token (early return)", "file": TR, "rule": "wire-chunks",
     "old": "            correct &= self.gather_token(Token.unserialize(s, self.public_key, offset=i)) is not None",
     "new": "            if self.gather_token(Token.unserialize(s, self.public_key, offset=i)) is None:\n                return False"},
    {"name": "gather_token appends without waking the waiting children", "file": TR, "rule": "writers",
     "old": "            self._append_chain_reaction_token(token)\n            return token",
     "new": "            self._append(token)\n            return token"},
    {"name": "walk verifies only every other token", "file": TR, "rule": "wire-chunks",
     "old": "            current = self.elements[current.previous_token_hash]\n            steps += 1\n        return steps < maxdepth",
     "new": "            current = self.elements[current.previous_token_hash]\n            if current.previous_token_hash in self.elements:\n"
            "                current = self.elements[current.previous_token_hash]\n            steps += 1\n        return steps < maxdepth"},
]
