"""C16 - A token tree only ever holds its owner's signed chain, in any order."""
from __future__ import annotations

import ast
import os
import struct

from ..core import Ctx
from ..match import Fact, arg, call_name, calls, expr_context_facts, fact_of, facts_at, is_param, local_defs, stores
from ..model import NOCONST as _NOCONST
from ..model import AnalysisError, FuncInfo, Repo, ancestors, chain, const_value, enclosing_stmt, norm, parent, set_parents, strip_cast, walk_no_nested

LEVEL = "other"
EXPLANATION = (
    "Every function is analysed through a behaviour-equivalent *view* built from the source as written: private helpers "
    "(also generator helpers, dispatch tables, private callable classes, helpers that return from inside a loop) are inlined, "
    "decision values (constants, enum members, NamedTuple / dataclass results) are propagated into the code that acts on "
    "them, `match` is read as the if/elif chain it executes, standard-library callables (attrgetter, methodcaller, "
    "itemgetter, partial, operator.*, filter/map/filterfalse, contextlib.suppress) are written out, constant tests are "
    "folded.  On the view of gather_token: keeping a token in the waiting area and appending it "
    "are dominated by a truthy token.verify(self.public_key); a waiting token takes one slot however often it is offered "
    "(keyed store, or an un-keyed insertion under a `not in` test); appending additionally requires the parent to be the genesis "
    "hash or a contained token and the token not to be present yet, and is always followed by a complete scan of the waiting "
    "area that re-offers every waiting child through gather_token (no early exit, woken tokens leave the waiting area) so "
    "forks do not depend on arrival order; elements is written only from add/add_by_hash (own key), gather_token and the "
    "database reload in PseudonymManager; the waiting area is bounded; content is attached only under a hash match (decided "
    "per None-ness case of Token.__init__ by partial evaluation); wire chunk size equals the token struct size and every "
    "chunk is offered to gather_token unconditionally; verify/get_root_path check every step's signature; token equality "
    "covers the signature; a walk that leaves its loop because the step budget is used up returns a failure verdict (the code behind the loop is "
    "run on the concrete exit state steps == maxdepth; refute-only); on every returning path of serialize_public the emitted sequence puts a token's parent before the token "
    "(order abstract interpretation: iteration of self.elements is parents-first because _append stores a token only once it is chained, "
    "a walk along previous_token_hash is child-first when collected by appending and parents-first when collected by prepending, "
    "reversed / [::-1] / reverse() flip, join / map / comprehensions / copies and followed helper generators keep the order), so a reload "
    "never parks more tokens than the bounded waiting area holds. The tree's key (which roots the genesis hash and checks every signature) is "
    "stored in TokenTree.__init__ only as `<key>.pub()` - a key object kept as given may be a private key (a subclass of the public key) whose "
    "serialisation gives another genesis. A `match` whose guards read the names its pattern captured is rewritten with the captures replaced by the "
    "subject parts they name (only when no other code reads those names); a function whose view still holds a `match` that could not be "
    "rewritten exactly is undecided wherever a rule fails in it, never a finding. Permutations are not enumerated."
)

TR = "ipv8/attestation/tokentree/tree.py"
TK = "ipv8/attestation/tokentree/token.py"
SO = "ipv8/attestation/signed_object.py"

_COMPS = (ast.ListComp, ast.SetComp, ast.DictComp, ast.GeneratorExp)
_LOOPS = (ast.For, ast.AsyncFor, ast.While)
_WRAPPERS = ("list", "tuple", "sorted", "reversed", "set", "frozenset")


# ------------------------------------------------------------------------------------ expression recognition helpers
def _clone(e: ast.AST) -> ast.AST:
    return ast.parse(ast.unparse(e), mode="eval").body


_CFGS: dict[int, tuple] = {}


def _cfg_of(fi: FuncInfo):
    from ..cfg import CFG
    hit = _CFGS.get(id(fi.node))
    if hit is None or hit[0] is not fi.node:
        if len(_CFGS) > 400:
            _CFGS.clear()
        hit = _CFGS[id(fi.node)] = (fi.node, CFG(fi.node))
    return hit[1]


def _reaching(fi: FuncInfo, n: ast.Name) -> list[tuple[ast.stmt, ast.AST | None, int | None]] | None:
    """The definitions of local `n.id` that reach this read of it, decided on the control-flow graph (None: a parameter, no
    definition at all, or a path on which the name is not assigned)."""
    if is_param(fi, n.id):
        return None
    ds = local_defs(fi, n.id)
    if not ds:
        return None
    if len(ds) == 1:
        return list(ds)
    try:
        cfg = _cfg_of(fi)
    except AnalysisError:
        return None
    use = cfg.nodes_for(n)
    if not use:
        return None
    dnodes = {i: cfg.nodes_for(s) for i, (s, v, k) in enumerate(ds)}
    alld = [x for ns in dnodes.values() for x in ns]
    reaching = []
    for i, ns in dnodes.items():
        firsts = [v for d in ns for v, lab in d.succ if lab != "exc"]
        for u in use:
            cut = [x for x in alld if x is not u]
            if u in firsts or u in cfg.reach([f for f in firsts if f not in cut], cut_nodes=cut):
                reaching.append(i)
                break
    if not reaching or any(u in cfg.reach(cut_nodes=[x for x in alld if x is not u]) and u not in alld for u in use):
        return None                      # also reachable without any definition
    return [ds[i] for i in reaching]


def _def_value(fi: FuncInfo, n: ast.Name) -> ast.AST | None:
    """
    The expression bound to local `n.id` by the ONE definition that reaches this read of it (None for parameters, loop
    targets, several reaching definitions, tuple unpacking).  A name assigned exactly once is the common case; a name
    assigned in several branches is resolved on the control-flow graph.
    """
    r = _reaching(fi, n)
    if r is None or len(r) != 1:
        return None
    s, v, k = r[0]
    if v is not None and k is not None and isinstance(strip_cast(v), (ast.Tuple, ast.List)) and not any(isinstance(x, ast.Starred) for x in strip_cast(v).elts) \
            and isinstance(k, int) and k < len(strip_cast(v).elts) and isinstance(s, ast.Assign) and len(s.targets) == 1 \
            and isinstance(s.targets[0], (ast.Tuple, ast.List)) and len(s.targets[0].elts) == len(strip_cast(v).elts) \
            and not ({x.id for t in s.targets[0].elts for x in ast.walk(t) if isinstance(x, ast.Name)} & {x.id for x in ast.walk(v) if isinstance(x, ast.Name)}):
        return strip_cast(v).elts[k]             # `a, b = x, y` (no swap): b is y
    return v if v is not None and k is None else None


def _expand(fi: FuncInfo, e: ast.AST | None, depth: int = 4) -> ast.AST | None:
    """Copy of e in which every local with one reaching definition is replaced by its defining expression (hoisted locals undone)."""
    if e is None:
        return None

    def go(n, d: int):
        if isinstance(n, list):
            return [go(x, d) for x in n]
        if not isinstance(n, ast.AST):
            return n
        if isinstance(n, ast.Name) and isinstance(n.ctx, ast.Load) and d > 0:
            v = _def_value(fi, n)
            if v is not None and not isinstance(strip_cast(v), (*_COMPS, ast.Lambda)):
                return go(strip_cast(v), d - 1)
        if isinstance(n, (ast.expr_context, ast.operator, ast.unaryop, ast.boolop, ast.cmpop)):
            return n
        new = type(n)()
        for f in n._fields:
            if hasattr(n, f):
                setattr(new, f, go(getattr(n, f), d))
        for a in n._attributes:
            if hasattr(n, a):
                setattr(new, a, getattr(n, a))
        return new

    return go(strip_cast(e), depth)


def _expand_text(fi: FuncInfo, e: ast.AST) -> ast.AST:
    """_expand for an expression that was put together by a rule (its names are looked up as single-assignment locals only)"""
    def go(n, d: int):
        if isinstance(n, ast.Name) and isinstance(n.ctx, ast.Load) and d > 0 and not is_param(fi, n.id):
            ds = local_defs(fi, n.id)
            if len(ds) == 1 and ds[0][1] is not None and ds[0][2] is None and not isinstance(strip_cast(ds[0][1]), (*_COMPS, ast.Lambda)):
                return go(_clone(strip_cast(ds[0][1])), d - 1)
            return n
        for f, val in ast.iter_fields(n):
            if isinstance(val, ast.AST):
                setattr(n, f, go(val, d))
            elif isinstance(val, list):
                setattr(n, f, [go(x, d) if isinstance(x, ast.AST) else x for x in val])
        return n
    return go(_clone(strip_cast(e)), 4)


def _x(fi: FuncInfo, e: ast.AST | None) -> str | None:
    """Normalised text of e after undoing local aliases."""
    return None if e is None else norm(_expand(fi, e))


def _is_none(e: ast.AST | None) -> bool:
    return isinstance(e, ast.Constant) and e.value is None


def _sha3_arg(e: ast.AST | None) -> ast.AST | None:
    """X of `sha3_256(X).digest()` / `hashlib.sha3_256(X).digest()` (already expanded expression)."""
    if isinstance(e, ast.Call) and isinstance(e.func, ast.Attribute) and e.func.attr == "digest" and not e.args:
        inner = e.func.value
        if isinstance(inner, ast.Call) and (chain(inner.func) or "").split(".")[-1] == "sha3_256" and len(inner.args) == 1:
            return inner.args[0]
        if isinstance(inner, ast.Call) and chain(inner.func) == "hashlib.new" and len(inner.args) == 2 and const_value(inner.args[0]) == "sha3_256":
            return inner.args[1]
    return None


def _hashed(fi: FuncInfo, e: ast.AST | None) -> ast.AST | None:
    """X such that e evaluates to sha3_256(X).digest(): the one-shot call, or a hash object that is created, fed with `h.update(..)`
    and finalised by statements of the function's top-level body (executed exactly once, in that order)"""
    if e is None:
        return None
    r = _sha3_arg(_expand(fi, e))
    if r is not None:
        return r
    x = strip_cast(e)
    for _ in range(3):
        if isinstance(x, ast.Name):
            d = _def_value(fi, x)
            if d is None:
                return None
            x = strip_cast(d)
    if not (isinstance(x, ast.Call) and isinstance(x.func, ast.Attribute) and x.func.attr == "digest" and not x.args and isinstance(x.func.value, ast.Name)):
        return None
    h = x.func.value
    ds = local_defs(fi, h.id)
    if len(ds) != 1 or ds[0][1] is None or ds[0][2] is not None or is_param(fi, h.id):
        return None
    ctor = strip_cast(ds[0][1])
    first = None
    if isinstance(ctor, ast.Call) and (chain(ctor.func) or "").split(".")[-1] == "sha3_256" and len(ctor.args) <= 1 and not ctor.keywords:
        first = ctor.args[0] if ctor.args else None
    elif isinstance(ctor, ast.Call) and chain(ctor.func) == "hashlib.new" and 1 <= len(ctor.args) <= 2 and const_value(ctor.args[0]) == "sha3_256" and not ctor.keywords:
        first = ctor.args[1] if len(ctor.args) == 2 else None
    else:
        return None
    body = list(fi.node.body)
    top = {id(st): i for i, st in enumerate(body)}
    d_at, u_at = top.get(id(ds[0][0])), top.get(id(enclosing_stmt(x)))
    if d_at is None or u_at is None or not d_at < u_at:
        return None
    fed: list[tuple[int, ast.AST]] = []
    for n in ast.walk(fi.node):
        if isinstance(n, ast.Name) and n.id == h.id and isinstance(n.ctx, ast.Load) and n is not h:
            at = parent(n)
            call = parent(at) if isinstance(at, ast.Attribute) else None
            st = parent(call) if call is not None else None
            if not (isinstance(at, ast.Attribute) and at.attr == "update" and isinstance(call, ast.Call) and call.func is at and len(call.args) == 1 and not call.keywords
                    and isinstance(st, ast.Expr) and id(st) in top and d_at < top[id(st)] < u_at):
                return None
            fed.append((top[id(st)], call.args[0]))
    parts = ([first] if first is not None else []) + [a for i, a in sorted(fed, key=lambda t: t[0])]
    if not parts:
        return None
    acc = _expand(fi, parts[0])
    for a in parts[1:]:
        acc = ast.BinOp(left=acc, op=ast.Add(), right=_expand(fi, a))
    return ast.fix_missing_locations(ast.copy_location(acc, x))


def _concat(e: ast.AST | None) -> str | None:
    """`a + b + c` / `b"".join((a, b, c))` / `b"".join([a, b, c])` as the canonical text `a + b + c`"""
    if e is None:
        return None
    parts: list[str] = []

    def go(x) -> bool:
        x = strip_cast(x)
        if isinstance(x, ast.BinOp) and isinstance(x.op, ast.Add):
            return go(x.left) and go(x.right)
        if isinstance(x, ast.Call) and isinstance(x.func, ast.Attribute) and x.func.attr == "join" and isinstance(x.func.value, ast.Constant) \
                and x.func.value.value in (b"", "") and len(x.args) == 1 and isinstance(x.args[0], (ast.Tuple, ast.List)) and not x.keywords:
            return all(go(y) for y in x.args[0].elts)
        if isinstance(x, ast.Constant) and x.value in (b"", "") and isinstance(x.value, (bytes, str)):
            return True                  # `b"" + a` is `a`
        parts.append(norm(x))
        return True
    return " + ".join(parts) if go(e) and parts else None


def _table_key(e: ast.AST | None, table: str) -> ast.AST | None:
    """K of `table.get(K[, None])` (already expanded expression)."""
    if isinstance(e, ast.Call) and chain(e.func) == table + ".get" and e.args and (len(e.args) == 1 or _is_none(e.args[1])):
        return e.args[0]
    return None


def _table_get(e: ast.AST | None, table: str) -> tuple[ast.AST, ast.AST | None] | None:
    """(K, D) of `table.get(K)` / `table.get(K, D)` (already expanded expression; D is None when the default is not given)"""
    if isinstance(e, ast.Call) and chain(e.func) == table + ".get" and 1 <= len(e.args) <= 2 and not e.keywords and not any(isinstance(a, ast.Starred) for a in e.args):
        return e.args[0], (e.args[1] if len(e.args) == 2 else None)
    return None


_SENTINEL_TAKERS = ("get", "pop", "getattr", "next", "setdefault")


def _sentinel_uses_ok(scope: ast.AST, is_ref) -> bool:
    """
    Every read of the sentinel inside `scope` is an operand of an identity test (`is` / `is not`) or the default argument of a
    lookup (`.get(k, S)`, `.pop(k, S)`, `getattr(o, n, S)`, `next(it, S)`): it is never stored into a table, never returned and
    never handed to other code, so no table can hold it as a value.
    """
    for n in ast.walk(scope):
        if not is_ref(n) or not isinstance(getattr(n, "ctx", None), ast.Load):
            continue
        p = parent(n)
        if isinstance(p, ast.Compare) and all(isinstance(o, (ast.Is, ast.IsNot)) for o in p.ops):
            continue
        if isinstance(p, ast.Call) and p.args and p.args[-1] is n and len(p.args) >= 2 and not p.keywords and \
                ((isinstance(p.func, ast.Attribute) and p.func.attr in ("get", "pop")) or (isinstance(p.func, ast.Name) and p.func.id in ("getattr", "next"))):
            continue
        return False
    return True


def _fresh_object(m, v: ast.AST | None) -> bool:
    """v creates a new object nothing else can be identical to: `object()`, or an instance of a class of this module made without arguments"""
    v = strip_cast(v) if v is not None else None
    if not (isinstance(v, ast.Call) and not v.args and not v.keywords and isinstance(v.func, ast.Name)):
        return False
    return v.func.id == "object" or (m is not None and v.func.id in m.classes)


def _is_sentinel(fi: FuncInfo, d: ast.AST) -> bool:
    """
    d names a private marker object: bound exactly once (module level, class body or a local of this function) to a freshly created
    object and used for nothing but identity tests and lookup defaults.  `T.get(k, d) is d` then holds exactly when k is missing from T.
    """
    d = strip_cast(d)
    m = fi.module
    if isinstance(d, ast.Name):
        if is_param(fi, d.id):
            return False
        ds = local_defs(fi, d.id)
        if ds:
            return len(ds) == 1 and ds[0][2] is None and _fresh_object(m, ds[0][1]) and \
                _sentinel_uses_ok(fi.node, lambda n: isinstance(n, ast.Name) and n.id == d.id)
        v = m.constants.get(d.id) if m is not None else None
        if v is None or not _fresh_object(m, v):
            return False
        name_stores = sum(1 for x in ast.walk(m.tree) if isinstance(x, ast.Name) and x.id == d.id and isinstance(x.ctx, (ast.Store, ast.Del)))
        rebinds = any(isinstance(x, (ast.Global, ast.Nonlocal)) and d.id in x.names for x in ast.walk(m.tree))
        shadowed = any(isinstance(x, ast.arg) and x.arg == d.id for x in ast.walk(m.tree))
        return name_stores == 1 and not rebinds and not shadowed and _sentinel_uses_ok(m.tree, lambda n: isinstance(n, ast.Name) and n.id == d.id)
    if isinstance(d, ast.Attribute) and isinstance(d.value, ast.Name) and fi.cls is not None and m is not None and \
            (d.value.id in ("self", "cls") or d.value.id in {c.name for c in fi.cls.mro()}):
        v = fi.cls.lookup_attr(d.attr)
        if v is None or not _fresh_object(m, v):
            return False
        attr_stores = sum(1 for x in ast.walk(m.tree) if isinstance(x, ast.Attribute) and x.attr == d.attr and isinstance(x.ctx, (ast.Store, ast.Del)))
        class_stores = sum(1 for x in ast.walk(m.tree) if isinstance(x, ast.Name) and x.id == d.attr and isinstance(x.ctx, (ast.Store, ast.Del)))
        return attr_stores == 0 and class_stores == 1 and _sentinel_uses_ok(m.tree, lambda n: (isinstance(n, ast.Attribute) and n.attr == d.attr) or
                                                                            (isinstance(n, ast.Name) and n.id == d.attr))
    return False


def _absent_test(fi: FuncInfo, f: Fact, table: str) -> tuple[ast.AST, bool] | None:
    """(K, absent-when-the-fact-holds) when the identity fact f compares `table.get(K, D)` with its own default D, D being None (the table
    holds no None) or a private marker object: the lookup yields D exactly when K is missing"""
    if f.op != "is" or f.right is None:
        return None
    def follow(e: ast.AST) -> ast.AST:
        e = strip_cast(e)
        for _ in range(4):
            if not isinstance(e, ast.Name):
                break
            v = _def_value(fi, e)
            if v is None or _fresh_object(fi.module, v):
                break
            e = strip_cast(v)
        return e
    for a, b in ((f.left, f.right), (f.right, f.left)):
        c = follow(a)                                # the call as written: its default argument is compared by name, not by value
        if isinstance(c, ast.Call) and isinstance(c.func, ast.Attribute) and c.func.attr == "get" and chain(c.func) != table + ".get" and \
                chain(_expand(fi, c.func.value)) == table:
            c = ast.copy_location(ast.Call(func=ast.parse(table + ".get", mode="eval").body, args=c.args, keywords=c.keywords), c)
        g = _table_get(c, table)
        if g is None:
            continue
        k, dflt = _expand(fi, g[0]), (strip_cast(g[1]) if g[1] is not None else None)
        b = follow(b)
        if _is_none(b):
            if dflt is None or _is_none(dflt) or _is_none(follow(dflt)):
                return k, f.pos
            continue
        if dflt is not None and isinstance(dflt, (ast.Name, ast.Attribute)) and norm(b) == norm(dflt) and _is_sentinel(fi, dflt):
            return k, f.pos
    return None


def _is_table(e: ast.AST, table: str) -> bool:
    return chain(e) in (table, table + ".keys()")


def _split(e: ast.AST, pol: bool) -> list[Fact]:
    """e has truthiness pol: atom facts where that is sound (and / or / not / chained comparison)."""
    e = strip_cast(e)
    if isinstance(e, ast.UnaryOp) and isinstance(e.op, ast.Not):
        return _split(e.operand, not pol)
    if isinstance(e, ast.BoolOp):
        if isinstance(e.op, ast.And) == pol:
            return [f for v in e.values for f in _split(v, pol)]
        return []
    return [fact_of(e, pol)]


def _facts(fi: FuncInfo, cfg, site) -> list[Fact]:
    """Dominating facts at site; a flag local (`ok = a == b` ... `if ok:`) is replaced by the facts of its definition."""
    out: list[Fact] = []
    for f in facts_at(cfg, site):
        out.append(f)
        if f.op == "truthy" and isinstance(f.left, ast.Name):
            d = _def_value(fi, f.left)
            if d is not None:
                out.extend(_split(_expand(fi, d), f.pos))
    return out


def _eafp_get(fi: FuncInfo, e: ast.AST | None, table: str) -> ast.AST | None:
    """
    K when the local `e` is `table.get(K)` spelled with an exception handler: exactly two definitions reach this read, `e = table[K]` as
    the only statement of a try body and `e = None` in the handler of that try for the KeyError the lookup raises when K is missing.
    """
    e = strip_cast(e) if e is not None else None
    if not isinstance(e, ast.Name):
        return None
    r = _reaching(fi, e)
    if r is None or len(r) != 2:
        return None
    for (s1, v1, k1), (s2, v2, k2) in (r, r[::-1]):
        if k1 is not None or k2 is not None or v1 is None or v2 is None or not _is_none(strip_cast(v2)):
            continue
        t, hd = parent(s1), parent(s2)
        look = strip_cast(v1)
        if not (isinstance(t, ast.Try) and len(t.body) == 1 and t.body[0] is s1 and isinstance(hd, ast.ExceptHandler) and any(hd is x for x in t.handlers)):
            continue
        caught = [chain(x) for x in (hd.type.elts if isinstance(hd.type, ast.Tuple) else [hd.type])] if hd.type is not None else []
        if not caught or any(c not in ("KeyError", "LookupError") for c in caught) or any(x is not hd and t.handlers.index(x) < t.handlers.index(hd) for x in t.handlers):
            continue
        if isinstance(look, ast.Subscript) and isinstance(look.ctx, ast.Load) and chain(look.value) == table and not isinstance(look.slice, ast.Slice):
            return _expand(fi, look.slice)
    return None


def _membership(fi: FuncInfo, f: Fact, table: str = "self.elements") -> tuple[str, bool] | None:
    """(key text, is-contained) when fact f decides `key in table` (in / not in / .get(key) is None / truthy .get(key); the `.get` may be
    spelled as a lookup whose KeyError is caught)."""
    if f.op == "in" and _is_table(_expand(fi, f.right), table):
        return _x(fi, f.left), f.pos
    if f.op == "is":
        g = _absent_test(fi, f, table)
        if g is not None:
            return norm(g[0]), not g[1]
    if f.op == "is" and _is_none(f.right):
        k = _table_key(_expand(fi, f.left), table) or _eafp_get(fi, f.left, table)
        if k is not None:
            return norm(k), not f.pos
    if f.op == "truthy":
        k = _table_key(_expand(fi, f.left), table) or _eafp_get(fi, f.left, table)
        if k is not None:
            return norm(k), f.pos
    return None


def _is_verify_call(fi: FuncInfo, e: ast.AST | None, receiver: str) -> bool:
    """e (a flag local is followed to its definition) is `<receiver>.verify(self.public_key)`."""
    e = strip_cast(e) if e is not None else None
    for _ in range(3):
        if isinstance(e, ast.Name):
            d = _def_value(fi, e)
            if d is None:
                return False
            e = strip_cast(d)
    if not (isinstance(e, ast.Call) and isinstance(e.func, ast.Attribute) and e.func.attr == "verify"):
        return False
    recv = e.func.value
    return (norm(recv) == receiver or _x(fi, recv) == receiver) and _x(fi, arg(e, 0, "public_key")) == "self.public_key" and len(e.args) + len(e.keywords) == 1


# ------------------------------------------------------------------------------------ deep views
# A *view* of a function is a behaviour-equivalent copy of it in which calls to private helpers of the same class (or
# module) are replaced by the helpers' bodies, decision values are propagated into the code that acts on them and
# constant tests are folded away.  Every rewrite is a semantics-preserving program transformation (inlining of a
# call with bound parameters, duplication of a continuation into the branches of an `if`, constant propagation,
# folding of constant tests, removal of unreachable statements), so a dominance fact derived from the view is a fact
# about the original function; a construct the transformer cannot handle exactly is left as it is.
_SINGLETONS = (ast.expr_context, ast.operator, ast.unaryop, ast.boolop, ast.cmpop)
_SCOPES = (ast.FunctionDef, ast.AsyncFunctionDef, ast.ClassDef, ast.Lambda)
_EXHAUSTING = ("list", "tuple", "set", "frozenset", "sorted", "sum", "min", "max", "dict")
_HOLE = "__c16_hole__"


def _cl(node):
    """structural copy (positions kept) that also keeps the inlining marks of call nodes"""
    if isinstance(node, list):
        return [_cl(x) for x in node]
    if not isinstance(node, ast.AST) or isinstance(node, _SINGLETONS):
        return node
    new = type(node)()
    for f in node._fields:
        if hasattr(node, f):
            setattr(new, f, _cl(getattr(node, f)))
    for a in node._attributes:
        if hasattr(node, a):
            setattr(new, a, getattr(node, a))
    for a in ("_stk", "_noinl"):
        if hasattr(node, a):
            setattr(new, a, getattr(node, a))
    return new


def _walk_scope(nodes):
    """nodes of a statement / expression (list), not entering nested def / class / lambda bodies"""
    stack = list(reversed(nodes)) if isinstance(nodes, list) else [nodes]
    while stack:
        n = stack.pop()
        yield n
        for ch in ast.iter_child_nodes(n):
            if not isinstance(ch, _SCOPES):
                stack.append(ch)


def _pure_simple(e: ast.AST) -> bool:
    if isinstance(e, (ast.Name, ast.Constant)):
        return True
    if isinstance(e, ast.Attribute):
        return _pure_simple(e.value)
    if isinstance(e, ast.UnaryOp) and isinstance(e.op, ast.USub):
        return isinstance(e.operand, ast.Constant)
    if isinstance(e, ast.Tuple):
        return all(_pure_simple(x) for x in e.elts)
    return False


def _is_constlike(e: ast.AST) -> bool:
    """a value that can be propagated: literal constant, tuple of such, or an UPPER_CASE class / enum / module constant"""
    if isinstance(e, ast.Constant):
        return True
    if isinstance(e, ast.UnaryOp) and isinstance(e.op, ast.USub) and isinstance(e.operand, ast.Constant):
        return True
    if isinstance(e, ast.Tuple):
        return all(_is_constlike(x) for x in e.elts)
    if isinstance(e, ast.Attribute) and e.attr.isupper() and _pure_simple(e):
        return True
    return isinstance(e, ast.Name) and e.id.isupper()


def _stored_names(nodes) -> set[str]:
    out: set[str] = set()
    for x in _walk_scope(nodes):
        if isinstance(x, ast.Name) and isinstance(x.ctx, (ast.Store, ast.Del)):
            out.add(x.id)
        elif isinstance(x, ast.ExceptHandler) and x.name:
            out.add(x.name)
        elif isinstance(x, (ast.FunctionDef, ast.AsyncFunctionDef, ast.ClassDef)):
            out.add(x.name)
    return out


def _loaded_names(nodes) -> set[str]:
    return {x.id for n in (nodes if isinstance(nodes, list) else [nodes]) for x in ast.walk(n) if isinstance(x, ast.Name) and isinstance(x.ctx, ast.Load)}


class _Sub(ast.NodeTransformer):
    """substitute loads of names by expressions / rename names; names rebound by a comprehension or lambda are shadowed there"""

    def __init__(self, mapping: dict[str, ast.expr], rename: dict[str, str] | None = None, into_lambda: bool = True) -> None:
        self.mapping, self.rename, self.into_lambda = mapping, rename or {}, into_lambda

    def visit_Name(self, n: ast.Name):  # noqa: N802
        if isinstance(n.ctx, ast.Load) and n.id in self.mapping:
            return ast.copy_location(_cl(self.mapping[n.id]), n)
        if n.id in self.rename:
            n.id = self.rename[n.id]
        return n

    def visit_ExceptHandler(self, n: ast.ExceptHandler):  # noqa: N802
        if n.name in self.rename:
            n.name = self.rename[n.name]
        return self.generic_visit(n)

    def _shadowed(self, n, bound: set[str]):
        hit = bound & set(self.mapping)
        if not hit:
            return self.generic_visit(n)
        saved = self.mapping
        self.mapping = {k: v for k, v in saved.items() if k not in hit}
        try:
            return self.generic_visit(n)
        finally:
            self.mapping = saved

    def visit_Lambda(self, n: ast.Lambda):  # noqa: N802
        a = n.args
        if not self.into_lambda:
            return n
        return self._shadowed(n, {x.arg for x in a.posonlyargs + a.args + a.kwonlyargs} | {x.arg for x in (a.vararg, a.kwarg) if x})

    def visit_FunctionDef(self, n: ast.FunctionDef):  # noqa: N802
        if n.name in self.rename:
            n.name = self.rename[n.name]
        a = n.args
        return self._shadowed(n, {x.arg for x in a.posonlyargs + a.args + a.kwonlyargs} | {x.arg for x in (a.vararg, a.kwarg) if x})

    def _comp(self, n):
        return self._shadowed(n, {x.id for g in n.generators for x in ast.walk(g.target) if isinstance(x, ast.Name)})

    visit_ListComp = visit_SetComp = visit_DictComp = visit_GeneratorExp = _comp  # noqa: N815


class _ReplaceNode(ast.NodeTransformer):
    def __init__(self, old: ast.AST, new: ast.AST) -> None:
        self.old, self.new = old, new

    def visit(self, node):
        if node is self.old:
            return self.new
        return self.generic_visit(node)


def _always_ends(stmts: list) -> bool:
    """the statement list never completes normally (every path returns / raises / continues / breaks)"""
    for st in stmts:
        if isinstance(st, (ast.Return, ast.Raise, ast.Continue, ast.Break)):
            return True
        if isinstance(st, ast.If) and st.orelse and _always_ends(st.body) and _always_ends(st.orelse):
            return True
        if isinstance(st, (ast.With, ast.AsyncWith)) and _always_ends(st.body):
            return True
    return False


def _always_returns(stmts: list) -> bool:
    for st in stmts:
        if isinstance(st, (ast.Return, ast.Raise)):
            return True
        if isinstance(st, ast.If) and st.orelse and _always_returns(st.body) and _always_returns(st.orelse):
            return True
    return False


def _has_return(stmts) -> bool:
    return any(isinstance(x, ast.Return) for x in _walk_scope(stmts))


def _n_stmts(stmts: list) -> int:
    return sum(1 for x in _walk_scope(stmts) if isinstance(x, ast.stmt))


class _NotExact(Exception):
    """this construct cannot be rewritten exactly: leave it alone"""


class _Deep:
    """Builds the view of one function (see above)."""

    MAX_REWRITES = 60
    MAX_STMTS = 600

    def __init__(self, repo, fi: FuncInfo, *, assume_none: tuple[str, ...] = (), assume_set: tuple[str, ...] = (), stop: tuple[str, ...] = ()) -> None:
        self.repo, self.fi, self.cls, self.mod = repo, fi, fi.cls, fi.module
        self.stop = set(stop) | {fi.name}
        self.assume_none, self.nonnull = set(assume_none), set(assume_set)
        self.fn = _cl(fi.node)
        self.fn.decorator_list = []
        self.fresh = 0
        self.rewrites = 0
        self.opaque: list[tuple[str, str]] = []          # (helper name, why it was not inlined)
        self.inlined: list[FuncInfo] = []

    # ---------------------------------------------------------------------------------------------- driver
    def build(self) -> FuncInfo:
        fn = self.fn
        try:
            from ..normalize import hoist_walrus          # `if (x := E) is None:` -> `x = E` / `if x is None:` (same evaluation order)
            hoist_walrus(ast.Module(body=[fn], type_ignores=[]))
        except ImportError:
            pass
        for x in ast.walk(fn):
            if isinstance(x, ast.Call):
                x._stk = ()
        if self.assume_none and not (_stored_names(fn.body) & self.assume_none):
            sub = _Sub({p: ast.Constant(None) for p in self.assume_none})
            fn.body = [sub.visit(s) for s in fn.body]
        self._simplify()
        while self.rewrites < self.MAX_REWRITES and _n_stmts(fn.body) < self.MAX_STMTS:
            if not self._rewrite_block_in(fn.body, fn):
                break
            self.rewrites += 1
            self._simplify()
        ast.fix_missing_locations(fn)
        set_parents(fn)
        fn._parent = getattr(self.fi.node, "_parent", None)
        view = FuncInfo(self.fi.name, self.fi.qualname, fn, self.mod, self.cls)
        view.opaque = self.opaque            # type: ignore[attr-defined]
        view.inlined = self.inlined          # type: ignore[attr-defined]
        view.origin = self.fi                # type: ignore[attr-defined]
        return view

    def _tmp(self, stem: str) -> str:
        self.fresh += 1
        return f"_{stem}{self.fresh}"

    # ---------------------------------------------------------------------------------------------- helper lookup
    def _helper(self, call: ast.AST):
        """(FuncInfo, receiver expr | None) when `call` calls a private helper that may be inlined"""
        if not isinstance(call, ast.Call) or getattr(call, "_noinl", False):
            return None
        f = call.func
        if isinstance(f, ast.Call):
            return self._callable_helper(call)
        h = recv = None
        explicit = closure = component = foreign = False
        if isinstance(f, ast.Attribute) and isinstance(f.value, ast.Name) and self.cls is not None and \
                (f.value.id in ("self", "cls") or self.repo.resolve_class_expr(self.mod, f.value) is not None):
            if f.value.id in ("self", "cls"):
                h = self.cls.lookup(f.attr)
                recv = f.value
            else:
                c = self.repo.resolve_class_expr(self.mod, f.value)
                if c is not None and (c is self.cls or c in self.cls.mro()):
                    h = c.lookup(f.attr)
                    explicit = True
        elif isinstance(f, ast.Attribute) and isinstance(f.value, ast.Name) and f.value.id not in self.locals and f.value.id not in self.fi.params():
            # `_mod._helper(x)` with `from . import _mod`: a private function of another module of the package
            r = self.repo.resolve_name(self.mod, f.value.id)
            if isinstance(r, tuple) and r[0] == "module" and r[1] is not None and isinstance(r[1].functions.get(f.attr), FuncInfo):
                h = r[1].functions[f.attr]
                foreign = h.module is not self.mod
        elif isinstance(f, ast.Attribute) and isinstance(f.value, ast.Attribute) and isinstance(f.value.value, ast.Name) and f.value.value.id == "self" \
                and self.cls is not None and "self" in self.fi.params()[:1] and "self" not in _stored_names(self.fn.body):
            # `self.<part>.<method>(..)`: the part is an instance of exactly one helper class that exists for this class only
            comp = self._component(f.value.attr)
            if comp is not None:
                h = comp[0].lookup(f.attr)
                if h is not None and (comp[1] or _is_private(h.name)):
                    component = True
                    recv = f.value
                    foreign = h.module is not self.mod
                else:
                    h = None
        elif isinstance(f, ast.Name):
            h = self._closure(f.id)
            if h is not None:
                closure = True
            else:
                r = self.repo.resolve_name(self.mod, f.id)
                if isinstance(r, FuncInfo) and r.cls is None and f.id not in _stored_names(self.fn.body) and f.id not in self.fi.params():
                    h = r
                    foreign = r.module is not self.mod            # a helper that lives in another module: followed there
        if h is None or (not closure and not component and not _is_private(h.name)):
            return None
        if h.name in self.stop or h.name in getattr(call, "_stk", ()):
            return None
        decs = h.decorator_names()
        kind = "function" if h.cls is None else "static" if "staticmethod" in decs else "classmethod" if "classmethod" in decs else "method"
        memo = [d for d in decs if d.split(".")[-1] in ("lru_cache", "cache")]
        if memo and not (kind in ("function", "static") and self._memo_transparent(h)):
            return None
        if any(d not in ("staticmethod", "classmethod") and d not in memo for d in decs):
            return None
        a = h.node.args
        if a.vararg or h.is_async:
            return None
        if a.kwarg and not self._kwarg_passthrough(h):
            return None
        if any(isinstance(x, (ast.Global, ast.Nonlocal, ast.AsyncFunctionDef, ast.ClassDef)) for s in h.node.body for x in ast.walk(s)):
            return None
        if closure and any(isinstance(x, ast.FunctionDef) for s in h.node.body for x in ast.walk(s)):
            return None
        if any(isinstance(x, ast.Call) and isinstance(x.func, ast.Name) and x.func.id in ("super", "locals", "vars") for s in h.node.body for x in ast.walk(s)):
            return None
        if component and kind == "classmethod":
            return None
        if kind in ("static", "function"):
            recv = None
        elif explicit:
            recv = f.value if kind == "classmethod" else None      # Class._m(self, x): the receiver is the first argument
        if foreign:
            h = self._ported(h)
            if h is None:
                return None
        return h, recv

    def _component(self, attr: str):
        """
        (class C, C is private) when `self.<attr>` holds, for the whole life of the object, an instance of exactly C: every store into the
        attribute is `self.<attr> = C(..)` in a constructor of this class, C has no subclasses, and C is instantiated nowhere else - it is
        a part of this class that was given a name.  Its methods are then called on a known receiver and can be read in place.
        """
        memo = self.__dict__.setdefault("_components", {})
        if attr in memo:
            return memo[attr]
        memo[attr] = None
        made: list[ast.Call] = []
        comp = None
        for c in self.cls.mro():
            for m in c.methods.values():
                for st, t in stores(m, "self." + attr):
                    v = strip_cast(st.value) if isinstance(st, (ast.Assign, ast.AnnAssign)) and st.value is not None else None
                    if m.name != "__init__" or not isinstance(v, ast.Call) or (isinstance(st, ast.Assign) and len(st.targets) != 1) or t is not (st.targets[0] if isinstance(st, ast.Assign) else st.target):
                        return None
                    c2 = self.repo.resolve_class_expr(m.module, v.func)
                    if c2 is None or (comp is not None and c2 is not comp):
                        return None
                    comp = c2
                    made.append(v)
        if comp is None or comp.all_subclasses() or not _stable_attr(self.repo, attr) or comp is self.cls or comp in self.cls.mro():
            return None
        # instantiated nowhere else (by any name it can be imported under)
        for m in self.repo.modules.values():
            for x in ast.walk(m.tree):
                if isinstance(x, ast.Call) and not any(x is v for v in made) and (chain(x.func) or "").split(".")[-1] == comp.name:
                    return None
                if isinstance(x, ast.Name) and x.id == comp.name and isinstance(x.ctx, ast.Load) and m.imports.get(x.id, ("", None))[1] not in (None, comp.name):
                    return None
        for m in self.repo.modules.values():
            if any(v[1] == comp.name and k != comp.name for k, v in m.imports.items()):
                return None                       # imported under another name: its uses are not tracked
        base = os.path.basename(comp.module.relpath)
        private = _is_private(comp.name) or (base.startswith("_") and not base.startswith("__"))
        memo[attr] = (comp, private)
        return memo[attr]

    def _ported(self, h: FuncInfo) -> FuncInfo | None:
        """
        A helper defined in ANOTHER module, as a function that means the same when read in this module: its own private helpers are
        inlined where it is defined, and every global name it still mentions denotes the same object in both modules (or is a builtin).
        """
        memo = self.__dict__.setdefault("_ports", {})
        key = id(h.node)
        if key in memo:
            return memo[key][1]
        memo[key] = (h.node, None)
        import builtins
        try:
            hv = _Deep(self.repo, h, stop=tuple(self.stop)).build()
        except (AnalysisError, RecursionError, _NotExact):
            return None
        own = set(hv.params()) | _stored_names(hv.node.body) | {x.id for x in ast.walk(hv.node) if isinstance(x, ast.Name) and isinstance(x.ctx, (ast.Store, ast.Del))} | \
            {a.arg for x in ast.walk(hv.node) if isinstance(x, ast.Lambda) for a in x.args.args}
        for x in ast.walk(ast.Module(body=hv.node.body, type_ignores=[])):
            if not (isinstance(x, ast.Name) and isinstance(x.ctx, ast.Load)) or x.id in own:
                continue
            here, there = self.repo.resolve_name(self.mod, x.id), self.repo.resolve_name(h.module, x.id)
            if here is None and there is None:
                ih, it = self.mod.imports.get(x.id), h.module.imports.get(x.id)
                if (ih is None and it is None and x.id not in self.mod.constants and x.id not in h.module.constants and hasattr(builtins, x.id)) or (ih is not None and ih == it):
                    continue
                return None
            same = here is there or (isinstance(here, tuple) and isinstance(there, tuple) and len(here) == len(there) and all(a is b for a, b in zip(here[1:], there[1:])))
            if not same:
                return None
        out = FuncInfo(h.name, h.qualname, hv.node, h.module, h.cls)
        self.opaque.extend(getattr(hv, "opaque", []))
        memo[key] = (h.node, out)
        return out

    @staticmethod
    def _kwarg_passthrough(h: FuncInfo) -> bool:
        """the `**kw` parameter is only ever handed on as `**kw` in calls: the extra keywords of a call site can be written there"""
        name = h.node.args.kwarg.arg
        passed = {id(k.value) for s_ in h.node.body for x in ast.walk(s_) if isinstance(x, ast.Call) for k in x.keywords if k.arg is None and isinstance(k.value, ast.Name)}
        if any(isinstance(x, (ast.FunctionDef, ast.Lambda)) for s_ in h.node.body for x in ast.walk(s_)):
            return False
        return all(id(x) in passed for s_ in h.node.body for x in ast.walk(s_) if isinstance(x, ast.Name) and x.id == name)

    def _memo_transparent(self, h: FuncInfo) -> bool:
        """a memoised function that computes a value object from its parameters alone (`return struct.Struct(f"..{n}s")`): the cache cannot be observed"""
        body = [s_ for s_ in h.node.body if not _is_doc(s_)]
        if len(body) != 1 or not isinstance(body[0], ast.Return) or body[0].value is None:
            return False
        ok_names = set(h.params()) | {k for k, v in h.module.imports.items() if v[1] is None}
        for x in ast.walk(body[0].value):
            if isinstance(x, ast.Name) and x.id not in ok_names:
                # a module constant (literal or derived number / text, bound once at import time) is the same at every call
                v = _konst(self.repo, h.module, x, None, frozenset(h.params())) if isinstance(x.ctx, ast.Load) else _NOCONST
                if v is _NOCONST or not isinstance(v, (int, str, bytes)):
                    return False
            if isinstance(x, (ast.Await, ast.Yield, ast.YieldFrom, ast.NamedExpr, ast.Lambda, *_COMPS)):
                return False
            if isinstance(x, ast.Call) and not ((chain(x.func) or "") in ("struct.Struct", "str", "int", "len") or
                                                (isinstance(x.func, ast.Attribute) and x.func.attr == "format" and isinstance(x.func.value, ast.Constant))):
                return False
        return True

    def _callable_helper(self, call: ast.Call):
        """`_C(a, b)(x)` for a private class whose constructor only stores its parameters: `__call__` as a function of (a, b, x)"""
        cc = self._callable_class(call.func)
        if cc is None:
            return None
        c, info = cc
        m = c.methods["__call__"]
        name = f"{c.name}.__call__"
        a = m.node.args
        if name in self.stop or name in getattr(call, "_stk", ()) or a.vararg or a.kwarg or m.is_async or m.node.decorator_list or not (a.posonlyargs + a.args):
            return None
        if any(isinstance(x, (ast.Global, ast.Nonlocal, ast.FunctionDef, ast.AsyncFunctionDef, ast.ClassDef)) for s_ in m.node.body for x in ast.walk(s_)):
            return None
        if any(isinstance(x, ast.Call) and isinstance(x.func, ast.Name) and x.func.id in ("super", "locals", "vars") for s_ in m.node.body for x in ast.walk(s_)):
            return None
        ctor, outer = call.func, call
        if any(isinstance(x, ast.Starred) for x in [*ctor.args, *outer.args]) or any(k.arg is None for k in [*ctor.keywords, *outer.keywords]):
            return None
        me_ = (a.posonlyargs + a.args)[0].arg
        own = [p.arg for p in (a.posonlyargs + a.args)[1:]] + [p.arg for p in a.kwonlyargs]
        used = {x.id for s_ in m.node.body for x in ast.walk(s_) if isinstance(x, ast.Name)} | set(own)
        pname: dict[str, str] = {}
        for p, d in info["params"]:
            new = p
            while new in used or new in pname.values():
                new += "_f"
            pname[p] = new
        body = _cl([s_ for s_ in m.node.body if not _is_doc(s_)]) or [ast.Pass()]
        ok = True

        class R(ast.NodeTransformer):
            def visit_Attribute(self, n):  # noqa: N802
                nonlocal ok
                if isinstance(n.value, ast.Name) and n.value.id == me_:
                    if isinstance(n.ctx, ast.Load) and n.attr in info["attrs"]:
                        return ast.copy_location(ast.Name(id=pname[info["attrs"][n.attr]], ctx=ast.Load()), n)
                    ok = False
                    return n
                return self.generic_visit(n)

            def visit_Name(self, n):  # noqa: N802
                nonlocal ok
                if n.id == me_:
                    ok = False
                return n
        body = [R().visit(s_) for s_ in body]
        if not ok:
            return None
        # bind the constructor's and the call's arguments by name, in evaluation order
        kws: list[ast.keyword] = []
        cparams = [p for p, d in info["params"]]
        if len(ctor.args) > len(cparams) or len(outer.args) > len((a.posonlyargs + a.args)[1:]):
            return None
        for p, x in zip(cparams, ctor.args):
            kws.append(ast.keyword(arg=pname[p], value=x))
        for k in ctor.keywords:
            if k.arg not in cparams or any(q.arg == pname[k.arg] for q in kws):
                return None
            kws.append(ast.keyword(arg=pname[k.arg], value=k.value))
        for p, x in zip([q.arg for q in (a.posonlyargs + a.args)[1:]], outer.args):
            kws.append(ast.keyword(arg=p, value=x))
        for k in outer.keywords:
            if k.arg not in own or any(q.arg == k.arg for q in kws):
                return None
            kws.append(ast.keyword(arg=k.arg, value=k.value))
        pos_own = [q.arg for q in (a.posonlyargs + a.args)[1:]]
        own_defaults: dict[str, ast.AST | None] = {q: None for q in own}
        for q, d in zip(pos_own[len(pos_own) - len(a.defaults):] if a.defaults else [], a.defaults):
            own_defaults[q] = d
        for q, d in zip(a.kwonlyargs, a.kw_defaults):
            own_defaults[q.arg] = d
        names = [pname[p] for p in cparams] + own
        defaults = [d for p, d in info["params"]] + [own_defaults[q] for q in own]
        args = ast.arguments(posonlyargs=[], args=[], vararg=None, kwonlyargs=[ast.arg(arg=n_, annotation=None) for n_ in names], kw_defaults=defaults, kwarg=None, defaults=[])
        node = ast.copy_location(ast.FunctionDef(name=name, args=args, body=body, decorator_list=[], returns=None, type_comment=None, type_params=[]), m.node)
        ast.fix_missing_locations(node)
        call._bindas = ast.copy_location(ast.Call(func=ast.Name(id=name, ctx=ast.Load()), args=[], keywords=kws), call)
        return FuncInfo(name, f"{c.name}.__call__", node, c.module, None), None

    def _closure(self, name: str) -> FuncInfo | None:
        """a function defined (once) inside the viewed function, or a lambda bound (once) to a local: called like a helper;
        its free variables are read at call time, exactly what the inlined statements do"""
        defs = [ch for x in [self.fn, *_walk_scope(list(self.fn.body))] for ch in ast.iter_child_nodes(x)
                if isinstance(ch, (ast.FunctionDef, ast.AsyncFunctionDef, ast.ClassDef)) and ch.name == name and ch is not self.fn]
        binds = [x for x in _walk_scope(list(self.fn.body)) if isinstance(x, ast.Name) and x.id == name and isinstance(x.ctx, (ast.Store, ast.Del))]
        if name in self.fi.params():
            return None
        if len(defs) == 1 and not binds and isinstance(defs[0], ast.FunctionDef) and not defs[0].decorator_list:
            return FuncInfo(name, f"{self.fi.qualname}.{name}", defs[0], self.mod, None)
        if not defs and len(binds) == 1:
            st = next((x for x in _walk_scope(list(self.fn.body)) if isinstance(x, ast.Assign) and len(x.targets) == 1 and x.targets[0] is binds[0]), None)
            if st is not None and isinstance(st.value, ast.Lambda):
                node = ast.copy_location(ast.FunctionDef(name=name, args=st.value.args, body=[ast.copy_location(ast.Return(value=st.value.body), st)],
                                                         decorator_list=[], returns=None, type_comment=None, type_params=[]), st)
                return FuncInfo(name, f"{self.fi.qualname}.{name}", node, self.mod, None)
        return None

    @staticmethod
    def _is_generator(h: FuncInfo) -> bool:
        return any(isinstance(x, (ast.Yield, ast.YieldFrom)) for x in _walk_scope(list(h.node.body)))

    # ---------------------------------------------------------------------------------------------- evaluation order
    def _first_helper_call(self, e: ast.AST | None, pred=None):
        """The helper call (or: the call satisfying pred) whose evaluation starts before anything impure in `e` has been evaluated (or None)."""
        hit: list = []
        pred = pred or (lambda x: self._helper(x) is not None)

        def seq(parts) -> str:
            for p in parts:
                r = go(p)
                if r != "pure":
                    return r
            return "pure"

        def go(x) -> str:          # "pure" | "hit" | "stop"
            if x is None or isinstance(x, (ast.Name, ast.Constant)):
                return "pure"
            if isinstance(x, ast.Attribute):
                return go(x.value)
            if isinstance(x, ast.Call):
                if pred(x):
                    hit.append(x)
                    return "hit"
                parts = [x.func] + [a.value if isinstance(a, ast.Starred) else a for a in x.args] + [k.value for k in x.keywords]
                r = seq(parts)
                if r != "pure":
                    return r
                if isinstance(x.func, ast.Name) and x.func.id in ("len", "isinstance", "bool"):
                    return "pure"
                return "stop"
            if isinstance(x, ast.Subscript):
                r = seq([x.value, x.slice])
                return r if r != "pure" else "stop"
            if isinstance(x, ast.Compare):
                r = seq([x.left, x.comparators[0]])
                return r if r != "pure" or len(x.comparators) == 1 else "stop"
            if isinstance(x, ast.BinOp):
                return seq([x.left, x.right])
            if isinstance(x, ast.UnaryOp):
                return go(x.operand)
            if isinstance(x, ast.BoolOp):
                r = go(x.values[0])
                return r if r != "pure" else ("pure" if all(_pure_simple(v) for v in x.values[1:]) else "stop")
            if isinstance(x, ast.IfExp):
                r = go(x.test)
                return r if r != "pure" else ("pure" if _pure_simple(x.body) and _pure_simple(x.orelse) else "stop")
            if isinstance(x, (ast.Tuple, ast.List, ast.Set)):
                return seq(x.elts)
            if isinstance(x, ast.Starred):
                return go(x.value)
            if isinstance(x, ast.NamedExpr):
                r = go(x.value)
                return r if r != "pure" else "stop"
            if isinstance(x, ast.Slice):
                return seq([x.lower, x.upper, x.step])
            if isinstance(x, (ast.ListComp, ast.SetComp, ast.DictComp)):
                r = go(x.generators[0].iter)
                return r if r == "hit" else "stop"
            return "stop"

        return hit[0] if go(e) == "hit" else None

    def _needs_statements(self, comp: ast.AST) -> bool:
        """the element / a condition of the comprehension calls a helper that cannot be written as one expression"""
        for part in [getattr(comp, "elt", None), getattr(comp, "key", None), getattr(comp, "value", None), *[c for g in comp.generators for c in g.ifs]]:
            if part is None:
                continue
            for x in _walk_scope(part):
                hp = self._helper(x)
                if hp is not None:
                    body = [s_ for s_ in hp[0].node.body if not _is_doc(s_)]
                    if not (len(body) == 1 and isinstance(body[0], ast.Return)) and not self._is_generator(hp[0]):
                        return True
        return False

    def _comp_to_loop(self, block: list, i: int, st: ast.stmt) -> bool:
        field, e = self._first_expr(st)
        if e is None:
            return False
        # find the comprehension that is evaluated before anything impure of the statement
        found: list = []

        def go(x) -> str:
            if x is None or isinstance(x, (ast.Name, ast.Constant)):
                return "pure"
            if isinstance(x, ast.ListComp):
                if len(x.generators) <= 2 and not any(g.is_async for g in x.generators) and self._needs_statements(x):
                    found.append(x)
                    return "hit"
                return "stop"
            if isinstance(x, ast.Attribute):
                return go(x.value)
            if isinstance(x, ast.Call):
                for p_ in [x.func, *x.args, *[k.value for k in x.keywords]]:
                    r = go(p_.value if isinstance(p_, ast.Starred) else p_)
                    if r != "pure":
                        return r
                return "stop"
            if isinstance(x, (ast.Tuple, ast.List)):
                for p_ in x.elts:
                    r = go(p_)
                    if r != "pure":
                        return r
                return "pure"
            if isinstance(x, ast.UnaryOp):
                return go(x.operand)
            if isinstance(x, ast.Compare):
                r = go(x.left)
                return r if r != "pure" else "stop"
            return "stop"
        if go(e) != "hit":
            return False
        comp = found[0]
        rename: dict[str, str] = {}
        for g in comp.generators:
            for x in ast.walk(g.target):
                # the comprehension has a scope of its own: its variables get names nothing else in the function uses
                if isinstance(x, ast.Name) and x.id not in rename:
                    rename[x.id] = self._tmp("c")
        if any(isinstance(x, (ast.NamedExpr, ast.Lambda, ast.GeneratorExp, ast.SetComp, ast.DictComp)) or (isinstance(x, ast.ListComp) and x is not comp) for x in ast.walk(comp)):
            return False
        acc = self._tmp("l")
        sub = _Sub({}, rename)
        elt = sub.visit(_cl(comp.elt))
        inner: list = [ast.Expr(value=ast.Call(func=ast.Attribute(value=ast.Name(id=acc, ctx=ast.Load()), attr="append", ctx=ast.Load()), args=[elt], keywords=[]))]
        gens = []
        for gi_, g in enumerate(comp.generators):
            # the first iterable is evaluated in the enclosing scope, later ones inside the comprehension's
            it = _cl(g.iter) if gi_ == 0 else sub.visit(_cl(g.iter))
            gens.append((sub.visit(_cl(g.target)), it, [sub.visit(_cl(c)) for c in g.ifs]))
        for tgt, it, ifs in reversed(gens):
            for c in reversed(ifs):
                inner = [ast.If(test=c, body=inner, orelse=[])]
            inner = [ast.For(target=tgt, iter=it, body=inner, orelse=[], type_comment=None)]
        init = ast.Assign(targets=[ast.Name(id=acc, ctx=ast.Store())], value=ast.List(elts=[], ctx=ast.Load()))
        new = [init, *inner]
        for x in new:
            ast.copy_location(x, st)
            ast.fix_missing_locations(x)
            for y in ast.walk(x):
                if isinstance(y, ast.Call) and not hasattr(y, "_stk"):
                    y._stk = ()
        use = ast.copy_location(ast.Name(id=acc, ctx=ast.Load()), comp)
        if getattr(st, field) is comp:
            setattr(st, field, use)
        else:
            _ReplaceNode(comp, use).visit(getattr(st, field))
        block[i:i] = new
        return True

    def _ctor_with_work(self, x: ast.Call) -> bool:
        """a constructor call of an immutable helper object one of whose arguments is not a plain name / constant (and is the first of them to be evaluated)"""
        if self._ctor_kind(x) is None or any(isinstance(a, ast.Starred) for a in x.args) or any(kw.arg is None for kw in x.keywords):
            return False
        args = [*x.args, *[kw.value for kw in x.keywords]]
        first = next((a for a in args if not self._arg_ok(a)), None)
        return first is not None and not isinstance(first, ast.Lambda)

    @staticmethod
    def _first_expr(st: ast.stmt):
        """(field name, expression) evaluated first when the statement is executed"""
        if isinstance(st, (ast.Expr, ast.Return)):
            return "value", st.value
        if isinstance(st, ast.Assign):
            return "value", st.value
        if isinstance(st, ast.AnnAssign) and st.value is not None:
            return "value", st.value
        if isinstance(st, ast.AugAssign) and isinstance(st.target, ast.Name):
            return "value", st.value
        if isinstance(st, (ast.If, ast.Assert)):
            return "test", st.test
        if isinstance(st, (ast.For, ast.AsyncFor)):
            return "iter", st.iter
        if isinstance(st, ast.Match):
            return "subject", st.subject
        return None, None

    # ---------------------------------------------------------------------------------------------- rewriting
    def _rewrite_block_in(self, block: list, owner) -> bool:
        """perform ONE inlining somewhere below `block` (depth first, in statement order); True if something changed"""
        for i, st in enumerate(block):
            if isinstance(st, _SCOPES):
                continue
            # (1) single-expression helpers anywhere in the statement's own expressions
            if self._expr_inline(st):
                return True
            # (1b) `return A(x) if c else B(x)` / `v = A(x) if c else B(x)`  ->  if c: ... else: ...   (same evaluation)
            if isinstance(st, (ast.Return, ast.Assign, ast.Expr)) and isinstance(st.value, ast.IfExp) and \
                    any(self._helper(x) is not None for arm in (st.value.body, st.value.orelse) for x in _walk_scope(arm)):
                v = st.value
                a, b = _cl(st), _cl(st)
                a.value, b.value = v.body, v.orelse
                block[i] = ast.copy_location(ast.If(test=v.test, body=[a], orelse=[b]), st)
                return True
            # (1d) a list comprehension whose element calls a helper that has statements of its own: written as the loop it is
            r = self._comp_to_loop(block, i, st)
            if r:
                return True
            # (1c) `... filter(_C(f(x)), ys) ...` -> `_a1 = f(x)` / `... filter(_C(_a1), ys) ...` when f(x) is the first thing the statement evaluates
            field, e = self._first_expr(st)
            if e is not None and not (isinstance(st, (ast.Assign, ast.AnnAssign)) and e is st.value and isinstance(e, ast.Call) and self._ctor_kind(e) is not None):
                ctor = self._first_helper_call(e, self._ctor_with_work)
                if ctor is not None:
                    holders = [(ctor.args, j) for j in range(len(ctor.args))] + [(kw, "value") for kw in ctor.keywords]
                    for holder, fld in holders:
                        a = holder[fld] if isinstance(holder, list) else getattr(holder, fld)
                        if not self._arg_ok(a):
                            tmp = self._tmp("a")
                            new_a = ast.copy_location(ast.Name(id=tmp, ctx=ast.Load()), a)
                            if isinstance(holder, list):
                                holder[fld] = new_a
                            else:
                                setattr(holder, fld, new_a)
                            block.insert(i, ast.fix_missing_locations(ast.copy_location(ast.Assign(targets=[ast.Name(id=tmp, ctx=ast.Store())], value=a), st)))
                            return True
            # (2) statement-level inlining of the first evaluated helper call
            call = self._first_helper_call(e) if e is not None else None
            if call is not None:
                try:
                    new = self._inline_stmt(block, i, st, field, call)
                except _NotExact as why:
                    new = None
                    h = self._helper(call)
                    self.opaque.append((h[0].name if h else "?", str(why)))
                    call._noinl = True
                if new is not None:
                    block[i:] = new
                    return True
            # (3) nested blocks
            for fld in ("body", "orelse", "finalbody"):
                blk = getattr(st, fld, None)
                if isinstance(blk, list) and blk and isinstance(blk[0], ast.stmt) and self._rewrite_block_in(blk, st):
                    return True
            if isinstance(st, ast.Try):
                for hd in st.handlers:
                    if self._rewrite_block_in(hd.body, hd):
                        return True
            if isinstance(st, ast.Match):
                for c in st.cases:
                    if self._rewrite_block_in(c.body, c):
                        return True
        return False

    def _own_exprs(self, st: ast.stmt):
        for field, val in ast.iter_fields(st):
            if field in ("body", "orelse", "finalbody", "handlers", "cases"):
                continue
            if isinstance(val, ast.expr):
                yield field, None, val
            elif isinstance(val, list):
                for k, v in enumerate(val):
                    if isinstance(v, ast.expr):
                        yield field, k, v
                    elif isinstance(v, ast.withitem):
                        yield field, k, v

    def _expr_inline(self, st: ast.stmt) -> bool:
        """`... self._h(a) ...` with `def _h(self, p): return E`  ->  `... E[p := a] ...`"""
        for field, k, e in self._own_exprs(st):
            root = e.context_expr if isinstance(e, ast.withitem) else e
            for c in _walk_scope(root):
                hp = self._helper(c)
                if hp is None:
                    continue
                h, recv = hp
                body = [s for s in h.node.body if not _is_doc(s)]
                if len(body) != 1 or not isinstance(body[0], ast.Return) or body[0].value is None or self._is_generator(h):
                    continue
                try:
                    pre, new = self._bind(h, c, recv, [ast.Return(value=body[0].value)], expr_mode=True)
                except _NotExact:
                    continue
                val = new[0].value
                self._mark(val, c, h)
                if root is c:
                    if isinstance(e, ast.withitem):
                        e.context_expr = val
                    elif k is None:
                        setattr(st, field, val)
                    else:
                        getattr(st, field)[k] = val
                else:
                    _ReplaceNode(c, val).visit(root)
                self.inlined.append(h)
                return True
        return False

    def _mark(self, nodes, call: ast.Call, h: FuncInfo) -> None:
        stk = (*getattr(call, "_stk", ()), h.name)
        for n in (nodes if isinstance(nodes, list) else [nodes]):
            for x in ast.walk(n):
                if isinstance(x, ast.Call) and not hasattr(x, "_stk"):
                    x._stk = stk

    def _bind(self, h: FuncInfo, call: ast.Call, recv, body: list, expr_mode: bool = False):
        """(prelude, body with the parameters bound to the arguments of `call`)"""
        a = h.node.args
        pos = [p.arg for p in a.posonlyargs + a.args]
        kwonly = [p.arg for p in a.kwonlyargs]
        call = getattr(call, "_bindas", call)          # a callable object: constructor + call arguments bound by name
        if any(isinstance(x, ast.Starred) for x in call.args) or any(k.arg is None for k in call.keywords):
            raise _NotExact("star arguments")
        bound: dict[str, ast.expr] = {}
        order: list[str] = []
        args = list(call.args)
        idx = 0
        if recv is not None:
            if not pos:
                raise _NotExact("no receiver parameter")
            bound[pos[0]] = recv
            idx = 1
        for x in args:
            if idx >= len(pos):
                raise _NotExact("too many arguments")
            bound[pos[idx]] = x
            order.append(pos[idx])
            idx += 1
        extra: list[tuple[str, str]] = []          # (keyword, pseudo parameter) collected by the helper's `**kw`
        for k in call.keywords:
            if k.arg not in pos + kwonly and a.kwarg is not None and k.arg not in bound:
                pseudo = f"{a.kwarg.arg}__{k.arg}"
                extra.append((k.arg, pseudo))
                bound[pseudo] = k.value
                order.append(pseudo)
                continue
            if k.arg not in pos + kwonly or k.arg in bound:
                raise _NotExact("unknown keyword")
            bound[k.arg] = k.value
            order.append(k.arg)
        for p, d in zip(pos[len(pos) - len(a.defaults):], a.defaults):
            if p not in bound:
                bound[p] = d
                order.append(p)
        for p, d in zip(kwonly, a.kw_defaults):
            if d is not None and p not in bound:
                bound[p] = d
                order.append(p)
        if set(bound) - {ps for k_, ps in extra} != set(pos + kwonly):
            raise _NotExact("unbound parameter")
        body = _cl(body)
        for x in ast.walk(ast.Module(body=body, type_ignores=[])):
            if isinstance(x, ast.Call) and hasattr(x, "_stk"):
                del x._stk                 # marks are set afresh by _mark
        stored = {x.id for s in body for x in ast.walk(s) if isinstance(x, ast.Name) and isinstance(x.ctx, (ast.Store, ast.Del))}
        stored |= {x.name for s in body for x in ast.walk(s) if isinstance(x, ast.ExceptHandler) and x.name}
        taken = {x.id for x in ast.walk(self.fn) if isinstance(x, ast.Name)} | set(self.fi.params())
        mapping: dict[str, ast.expr] = {}
        rename: dict[str, str] = {}
        pre: list[ast.stmt] = []
        uses: dict[str, int] = {}
        lazy: set[str] = set()            # parameters read in a lazily / repeatedly evaluated position
        for s_ in body:
            for x in ast.walk(s_):
                if isinstance(x, ast.Name) and isinstance(x.ctx, ast.Load):
                    uses[x.id] = uses.get(x.id, 0) + 1
                if isinstance(x, (ast.Lambda, ast.ListComp, ast.SetComp, ast.DictComp, ast.GeneratorExp, ast.IfExp, ast.BoolOp)):
                    lazy |= {y.id for y in ast.walk(x) if isinstance(y, ast.Name)}

        def local(name: str) -> str:
            new = name
            while new in taken or new in rename.values():
                new = new + "_i"
            taken.add(new)
            return new
        for p in order + [p for p in bound if p not in order]:
            v = bound[p]
            if expr_mode and p not in stored and not _pure_simple(v) and uses.get(p, 0) <= 1 and p not in lazy:
                mapping[p] = v             # evaluated exactly once, where the parameter was read
                continue
            if p in stored or not _pure_simple(v):
                new = local(p)
                if new != p:
                    rename[p] = new
                pre.append(ast.copy_location(ast.Assign(targets=[ast.Name(id=new, ctx=ast.Store())], value=_cl(v)), call))
            elif not (isinstance(v, ast.Name) and v.id == p):
                mapping[p] = v
        for name in sorted(stored - set(bound)):
            if name in taken:
                rename[name] = local(name)
        if pre and expr_mode:
            raise _NotExact("argument needs a local")
        sub = _Sub(mapping, rename)
        body = [sub.visit(s) for s in body]
        if a.kwarg is not None:
            # `f(**kw)` inside the helper: the keywords this call site passed beyond the named parameters
            for s_ in body:
                for x in ast.walk(s_):
                    if isinstance(x, ast.Call) and any(k.arg is None and isinstance(k.value, ast.Name) and k.value.id == a.kwarg.arg for k in x.keywords):
                        new_kws = []
                        for k in x.keywords:
                            if k.arg is None and isinstance(k.value, ast.Name) and k.value.id == a.kwarg.arg:
                                for kw_name, ps in extra:
                                    if any(q.arg == kw_name for q in x.keywords):
                                        raise _NotExact("keyword passed twice")
                                    val = _cl(mapping[ps]) if ps in mapping else ast.Name(id=rename.get(ps, ps), ctx=ast.Load())
                                    new_kws.append(ast.copy_location(ast.keyword(arg=kw_name, value=ast.copy_location(val, x)), x))
                            else:
                                new_kws.append(k)
                        x.keywords = new_kws
        return pre, body

    def _tailify(self, stmts: list, make_ret) -> list:
        """single-exit form: `return e` -> make_ret(e); statements after an early return move into the other branch"""
        out: list = []
        for i, st in enumerate(stmts):
            rest = stmts[i + 1:]
            if isinstance(st, ast.Return):
                out.extend(make_ret(st.value, st))
                return out
            if not _has_return([st]):
                out.append(st)
                if isinstance(st, ast.Raise):
                    return out
                continue
            if isinstance(st, ast.If):
                b_ret, e_ret = _always_returns(st.body), _always_returns(st.orelse)
                nb = self._tailify(st.body + ([] if b_ret else _cl(rest)), make_ret)
                ne = self._tailify(st.orelse + ([] if e_ret else _cl(rest)), make_ret)
                out.append(ast.copy_location(ast.If(test=st.test, body=nb or [ast.copy_location(ast.Pass(), st)], orelse=ne), st))
                return out
            if isinstance(st, (ast.With, ast.AsyncWith)) and not rest:
                st.body = self._tailify(st.body, make_ret) or [ast.copy_location(ast.Pass(), st)]
                out.append(st)
                return out
            raise _NotExact("return inside a loop / try")
        return out

    @staticmethod
    def _split_ifexp_returns(stmts: list) -> list:
        """`return a if c else b` -> `if c: return a` / `else: return b` (same evaluation)"""
        out = []
        for st in stmts:
            if isinstance(st, ast.Return) and isinstance(st.value, ast.IfExp):
                v = st.value
                out.append(ast.copy_location(ast.If(test=v.test, body=_Deep._split_ifexp_returns([ast.copy_location(ast.Return(value=v.body), st)]),
                                                     orelse=_Deep._split_ifexp_returns([ast.copy_location(ast.Return(value=v.orelse), st)])), st))
                continue
            for fld in ("body", "orelse"):
                blk = getattr(st, fld, None)
                if isinstance(st, (ast.If, ast.With)) and isinstance(blk, list) and blk and isinstance(blk[0], ast.stmt):
                    setattr(st, fld, _Deep._split_ifexp_returns(blk))
            out.append(st)
        return out

    def _inline_stmt(self, block: list, i: int, st: ast.stmt, field: str, call: ast.Call) -> list | None:
        h, recv = self._helper(call)
        rest = block[i + 1:]
        body = [s for s in h.node.body if not _is_doc(s)] or [ast.Pass()]
        if self._is_generator(h):
            return self._inline_generator(block, i, st, field, call, h, recv, body)
        pre, body = self._bind(h, call, recv, body)
        self._mark(pre + body, call, h)
        whole = getattr(st, field) is call
        returns = [x for x in _walk_scope(body) if isinstance(x, ast.Return)]
        # a copy of the statement with a placeholder where the call was
        k = next(j for j, x in enumerate(ast.walk(st)) if x is call)
        templ = _cl(st)
        call2 = list(ast.walk(templ))[k]
        ph = ast.copy_location(ast.Name(id=_HOLE, ctx=ast.Load()), call)
        if whole:
            setattr(templ, field, ph)
        else:
            _ReplaceNode(call2, ph).visit(getattr(templ, field))

        def hole(value: ast.expr | None, at) -> list:
            """the statement with the call replaced by the returned value"""
            value = value if value is not None else ast.Constant(None)
            if whole and isinstance(st, ast.Expr):
                return [] if _pure_simple(value) else [ast.copy_location(ast.Expr(value=value), at)]
            return [_Sub({_HOLE: value}).visit(_cl(templ))]

        if not returns:
            self.inlined.append(h)
            return pre + body + hole(None, st) + rest
        if self._returns_nested(body):
            # `return v` inside a loop of the helper: the caller's continuation is executed right there - exact when the continuation
            # never comes back (it always returns / raises and has no break / continue of its own) and no handler of the helper encloses it
            top = block is self.fn.body
            cont = rest if _always_returns(rest) else (rest + [ast.copy_location(ast.Return(value=None), st)]) if top else None
            if isinstance(st, ast.Return):
                cont = []
            if cont is None:
                raise _NotExact("return inside a loop / try")
            if self._returns_in_try(body) or self._own_jumps([templ, *cont]) or (len(returns) + 1) * (_n_stmts(cont) + 1) > 240:
                raise _NotExact("return inside a loop / try")

            def subst(stmts: list) -> list:
                out = []
                for s_ in stmts:
                    if isinstance(s_, ast.Return):
                        out.extend(hole(s_.value, s_) + _cl(cont))
                        break
                    for fld in ("body", "orelse", "finalbody"):
                        blk = getattr(s_, fld, None)
                        if isinstance(blk, list) and blk and isinstance(blk[0], ast.stmt):
                            setattr(s_, fld, subst(blk))
                    if isinstance(s_, ast.Try):
                        for hd in s_.handlers:
                            hd.body = subst(hd.body)
                    if isinstance(s_, ast.Match):
                        for c_ in s_.cases:
                            c_.body = subst(c_.body)
                    out.append(s_)
                return out
            new_body = subst(body)
            if not _always_returns(body):
                new_body = new_body + hole(None, st) + _cl(cont)
            self.inlined.append(h)
            return pre + new_body
        if not _always_returns(body):
            body = body + [ast.copy_location(ast.Return(value=None), st)]
        values = [r.value for r in returns]
        decisive = any(v is None or self._is_decision(v) or (isinstance(v, ast.IfExp) and (_is_constlike(v.body) or _is_constlike(v.orelse))) for v in values)
        push = isinstance(st, ast.Return) or (decisive and len(returns) + sum(isinstance(v, ast.IfExp) for v in values) > 1
                                              and isinstance(st, (ast.Assign, ast.AnnAssign, ast.If, ast.Expr, ast.Match))
                                              and (len(returns) + 1) * _n_stmts(rest) <= 240)
        if push:
            body = self._split_ifexp_returns(body)

            def make_ret(value, at):
                out = hole(value, at)
                if isinstance(st, ast.Return):
                    return out
                return out + _cl(rest)
            out = pre + self._tailify(body, make_ret)
            self.inlined.append(h)
            return out
        # value mode
        if len(returns) == 1 and isinstance(body[-1], ast.Return) and (body[-1].value is None or _pure_simple(body[-1].value)):
            self.inlined.append(h)
            return pre + body[:-1] + hole(body[-1].value, st) + rest
        if whole and isinstance(st, ast.Assign) and len(st.targets) == 1 and isinstance(st.targets[0], ast.Name):
            tgt = st.targets[0].id
            out = self._tailify(body, lambda v, at: [ast.copy_location(ast.Assign(targets=[ast.Name(id=tgt, ctx=ast.Store())], value=v if v is not None else ast.Constant(None)), at)])
            self.inlined.append(h)
            return pre + out + rest
        tmp = self._tmp("r")
        out = self._tailify(body, lambda v, at: [ast.copy_location(ast.Assign(targets=[ast.Name(id=tmp, ctx=ast.Store())], value=v if v is not None else ast.Constant(None)), at)])
        self.inlined.append(h)
        return pre + out + hole(ast.Name(id=tmp, ctx=ast.Load()), st) + rest

    def _inline_generator(self, block, i, st, field, call, h, recv, body) -> list | None:
        if _has_return(body):
            raise _NotExact("generator with return")
        ys = [x for x in _walk_scope(body) if isinstance(x, (ast.Yield, ast.YieldFrom))]
        stmts_y = [x for x in _walk_scope(body) if isinstance(x, ast.Expr) and isinstance(x.value, (ast.Yield, ast.YieldFrom))]
        if len(ys) != len(stmts_y):
            raise _NotExact("yield used as an expression")
        rest = block[i + 1:]
        pre, body = self._bind(h, call, recv, body)
        self._mark(pre + body, call, h)

        def replace_yields(stmts: list, make) -> list:
            out = []
            for s in stmts:
                if isinstance(s, ast.Expr) and isinstance(s.value, (ast.Yield, ast.YieldFrom)):
                    out.extend(make(s.value, s))
                    continue
                for fld in ("body", "orelse", "finalbody"):
                    blk = getattr(s, fld, None)
                    if isinstance(blk, list) and blk and isinstance(blk[0], ast.stmt):
                        setattr(s, fld, replace_yields(blk, make))
                if isinstance(s, ast.Try):
                    for hd in s.handlers:
                        hd.body = replace_yields(hd.body, make)
                out.append(s)
            return out

        if isinstance(st, ast.For) and st.iter is call and not st.orelse:
            # for x in self._gen(..): BODY   ->   the generator's statements with `yield e` replaced by `x = e; BODY`
            if self._own_jumps(st.body):
                raise _NotExact("break / continue in the consumer of a generator helper")

            def make(y, at):
                if isinstance(y, ast.YieldFrom):
                    return [ast.copy_location(ast.For(target=_cl(st.target), iter=y.value, body=_cl(st.body), orelse=[]), at)]
                return [ast.copy_location(ast.Assign(targets=[_cl(st.target)], value=y.value if y.value is not None else ast.Constant(None)), at)] + _cl(st.body)
            self.inlined.append(h)
            return pre + replace_yields(body, make) + rest
        # consumed completely by list(...) / sorted(...) / a list comprehension ...: collect, then hand the list over
        consumer = next((p for p in ast.walk(getattr(st, field)) if any(c is call for c in ast.iter_child_nodes(p))), None)
        if isinstance(consumer, ast.comprehension):
            comp = next(p for p in ast.walk(getattr(st, field)) if isinstance(p, (ast.ListComp, ast.SetComp, ast.DictComp, ast.GeneratorExp)) and consumer in p.generators)
            ok = not isinstance(comp, ast.GeneratorExp) and comp.generators[0] is consumer and consumer.iter is call
        elif isinstance(st, ast.For) and st.iter is call:
            ok = False
        else:
            ok = isinstance(consumer, ast.Call) and len(consumer.args) >= 1 and consumer.args[0] is call and \
                ((isinstance(consumer.func, ast.Name) and consumer.func.id in _EXHAUSTING) or (isinstance(consumer.func, ast.Attribute) and consumer.func.attr == "join"))
        if not ok:
            raise _NotExact("generator helper is not consumed completely at the call")
        acc = self._tmp("g")

        def make2(y, at):
            meth = "extend" if isinstance(y, ast.YieldFrom) else "append"
            return [ast.copy_location(ast.Expr(value=ast.Call(func=ast.Attribute(value=ast.Name(id=acc, ctx=ast.Load()), attr=meth, ctx=ast.Load()),
                                                              args=[y.value if y.value is not None else ast.Constant(None)], keywords=[])), at)]
        init = ast.copy_location(ast.Assign(targets=[ast.Name(id=acc, ctx=ast.Store())], value=ast.List(elts=[], ctx=ast.Load())), st)
        _ReplaceNode(call, ast.copy_location(ast.Name(id=acc, ctx=ast.Load()), call)).visit(st)
        self.inlined.append(h)
        return pre + [init] + replace_yields(body, make2) + [st] + rest

    @staticmethod
    def _returns_nested(body: list) -> bool:
        """a `return` of the helper that lies inside a loop / try / match (what _tailify cannot bring into single-exit form)"""
        def go(stmts, inside: bool) -> bool:
            for s_ in stmts:
                if isinstance(s_, ast.Return) and inside:
                    return True
                if isinstance(s_, _SCOPES):
                    continue
                deeper = inside or isinstance(s_, (ast.For, ast.AsyncFor, ast.While, ast.Try, ast.Match))
                for fld in ("body", "orelse", "finalbody"):
                    blk = getattr(s_, fld, None)
                    if isinstance(blk, list) and blk and isinstance(blk[0], ast.stmt) and go(blk, deeper):
                        return True
                if isinstance(s_, ast.Try) and any(go(hd.body, True) for hd in s_.handlers):
                    return True
                if isinstance(s_, ast.Match) and any(go(c_.body, True) for c_ in s_.cases):
                    return True
            return False
        return go(body, False)

    @staticmethod
    def _returns_in_try(body: list) -> bool:
        for s_ in _walk_scope(list(body)):
            if isinstance(s_, (ast.Try, ast.With, ast.AsyncWith)) and any(isinstance(x, ast.Return) for x in _walk_scope([s_])):
                return True
        return False

    @staticmethod
    def _own_jumps(stmts: list) -> bool:
        """a break / continue that belongs to the loop whose body is `stmts`"""
        for st in stmts:
            if isinstance(st, (ast.Break, ast.Continue)):
                return True
            if isinstance(st, (ast.For, ast.While, ast.AsyncFor)):
                if _Deep._own_jumps(st.orelse):
                    return True
                continue
            for fld in ("body", "orelse", "finalbody"):
                blk = getattr(st, fld, None)
                if isinstance(blk, list) and blk and isinstance(blk[0], ast.stmt) and _Deep._own_jumps(blk):
                    return True
            if isinstance(st, ast.Try) and any(_Deep._own_jumps(hd.body) for hd in st.handlers):
                return True
            if isinstance(st, ast.Match) and any(_Deep._own_jumps(c.body) for c in st.cases):
                return True
        return False

    # ---------------------------------------------------------------------------------------------- simplification
    def _simplify(self) -> None:
        for _ in range(8):
            self.changed = False
            self.thread_budget = 6
            body, _env = self._block(self.fn.body, {})
            self.fn.body = body or [ast.copy_location(ast.Pass(), self.fn)]
            if not self.changed:
                break

    # constant folding of expressions ----------------------------------------------------------------
    def _const_of(self, e: ast.AST):
        """Python value of a constant-like expression, or NOCONST"""
        if isinstance(e, ast.Constant):
            return e.value
        if isinstance(e, ast.UnaryOp) and isinstance(e.op, ast.USub) and isinstance(e.operand, ast.Constant) and isinstance(e.operand.value, (int, float)):
            return -e.operand.value
        if isinstance(e, ast.Tuple):
            vals = [self._const_of(x) for x in e.elts]
            return _NOCONST if any(v is _NOCONST for v in vals) else tuple(vals)
        if (isinstance(e, ast.Name) and e.id.isupper() and e.id not in self.locals) or (isinstance(e, ast.Attribute) and e.attr.isupper() and _pure_simple(e)):
            try:
                v = self.repo.resolve_const(self.mod, e, self.cls)
            except Exception:  # noqa: BLE001
                v = _NOCONST
            if v is not _NOCONST and isinstance(v, (int, str, bytes, bool, float, tuple, type(None))):
                return v
        return _NOCONST

    def _symbol(self, e: ast.AST) -> str | None:
        """identity of an enum member / tag object that has no literal value"""
        if isinstance(e, ast.Attribute) and e.attr.isupper() and _pure_simple(e) and self._const_of(e) is _NOCONST:
            return chain(e)
        return None

    def _table(self, e: ast.AST):
        """literal tuple / list / dict denoted by e (class-level table, instance table assigned once in __init__, literal)"""
        if isinstance(e, (ast.Tuple, ast.List, ast.Dict)):
            return e, None
        if isinstance(e, ast.Attribute) and isinstance(e.value, ast.Name) and self.cls is not None:
            owner = None
            if e.value.id in ("self", "cls"):
                owner = self.cls
            else:
                c = self.repo.resolve_class_expr(self.mod, e.value)
                if c is not None and c in self.cls.mro():
                    owner = c
            if owner is None:
                return None, None
            v = owner.lookup_attr(e.attr)
            if isinstance(v, (ast.Tuple, ast.List, ast.Dict)):
                return v, next(k for k in owner.mro() if e.attr in k.attrs)
            if v is None and e.value.id == "self":
                sts = [s for m in self.cls.methods.values() for s, t in stores(m, "self." + e.attr)]
                if len(sts) == 1 and isinstance(sts[0], (ast.Assign, ast.AnnAssign)) and isinstance(sts[0].value, (ast.Tuple, ast.List, ast.Dict)) \
                        and self.repo.function_of(sts[0]) is not None and self.repo.function_of(sts[0]).name == "__init__":
                    return sts[0].value, None
        if isinstance(e, ast.Name) and e.id.isupper() and e.id not in self.locals:
            r = self.repo.resolve_name(self.mod, e.id)
            if isinstance(r, tuple) and r[0] == "const" and isinstance(r[2], (ast.Tuple, ast.List, ast.Dict)):
                return r[2], None
        return None, None

    def _table_entry(self, entry: ast.AST, owner, at: ast.AST) -> ast.AST | None:
        """an entry of a dispatch table as an expression that is valid at the use site"""
        entry = _cl(entry)
        if owner is not None and isinstance(entry, ast.Name) and entry.id in owner.methods:
            # a function object stored in a class-level table: Class.table[i](self, x) == Class._m(self, x)
            return ast.copy_location(ast.Attribute(value=ast.Name(id=owner.name, ctx=ast.Load()), attr=entry.id, ctx=ast.Load()), at)
        if _pure_simple(entry) or (isinstance(entry, ast.Attribute) and _pure_simple(entry)):
            if owner is not None and any(isinstance(x, ast.Name) and x.id not in ("self", "cls") and not x.id.isupper() for x in ast.walk(entry)):
                return None
            return ast.copy_location(entry, at)
        return None

    # library callables, record objects ----------------------------------------------------------------
    # `attrgetter("a")(x)` is `x.a`, `methodcaller("m", a)(x)` is `x.m(a)`, `itemgetter(k)(x)` is `x[k]`, `partial(f, a)(b)` is
    # `f(a, b)`, `operator.eq(a, b)` is `a == b` (documented equivalences of the standard library); `R(a, b).f` for a
    # NamedTuple / dataclass R without a hand-written constructor is the argument bound to field f.
    def _mods(self) -> list:
        out = [self.mod]
        for c in (self.cls.mro() if self.cls is not None else ()):
            if c.module not in out:
                out.append(c.module)
        return out

    def _ext(self, e: ast.AST) -> str | None:
        """`operator.eq` / `functools.partial` ...: the standard-library callable denoted by a name or module attribute (import aliases followed)"""
        if isinstance(e, ast.Name):
            for m in self._mods():
                imp = m.imports.get(e.id)
                if imp is not None and imp[1] is not None and imp[0] in _STDLIB:
                    return None if e.id in self.locals else f"{imp[0]}.{imp[1]}"
        elif isinstance(e, ast.Attribute) and isinstance(e.value, ast.Name):
            for m in self._mods():
                imp = m.imports.get(e.value.id)
                if imp is not None and imp[1] is None and imp[0] in _STDLIB:
                    return None if e.value.id in self.locals else f"{imp[0]}.{e.attr}"
        return None

    def _static_value(self, e: ast.AST) -> ast.AST | None:
        """the expression a module constant / class attribute / instance attribute assigned once (in __init__) was defined by"""
        if isinstance(e, ast.Name) and e.id not in self.locals:
            for m in self._mods():
                r = self.repo.resolve_name(m, e.id)
                if isinstance(r, tuple) and r[0] == "const":
                    return r[2]
            return None
        if isinstance(e, ast.Attribute) and isinstance(e.value, ast.Name) and self.cls is not None and e.value.id not in self.locals - {"self", "cls"}:
            owner = None
            if e.value.id in ("self", "cls"):
                owner = self.cls
            else:
                c = self.repo.resolve_class_expr(self.mod, e.value)
                if c is not None and c in self.cls.mro():
                    owner = c
            if owner is None:
                return None
            v = owner.lookup_attr(e.attr)
            if v is not None:
                return v
            if e.value.id == "self":
                sts = [s for c in self.cls.mro() for m in c.methods.values() for s, t in stores(m, "self." + e.attr)]
                if len(sts) == 1 and isinstance(sts[0], (ast.Assign, ast.AnnAssign)) and sts[0].value is not None \
                        and self.repo.function_of(sts[0]) is not None and self.repo.function_of(sts[0]).name == "__init__":
                    return sts[0].value
        return None

    def _callobj(self, e: ast.AST, depth: int = 2):
        """(kind, constructor call) when e denotes an attrgetter / itemgetter / methodcaller / partial object"""
        if isinstance(e, ast.Call):
            k = self._ext(e.func)
            if k in _CALLOBJS and not any(isinstance(a, ast.Starred) for a in e.args) and not any(kw.arg is None for kw in e.keywords):
                if k != "functools.partial" and (e.keywords and k != "operator.methodcaller" or not e.args):
                    return None
                return k.split(".")[1], e
            return None
        if depth <= 0 or not isinstance(e, (ast.Name, ast.Attribute)):
            return None
        v = self._static_value(e)
        if not isinstance(v, ast.Call):
            return None
        r = self._callobj(v, depth - 1)
        if r is None:
            return None
        # defined in another scope: only arguments that mean the same everywhere
        args = [*r[1].args, *[kw.value for kw in r[1].keywords]]
        if r[0] == "partial":
            fn_, args = args[0], args[1:]
            if not (_pure_simple(fn_) and not any(isinstance(x, ast.Name) and x.id in ("self", "cls") for x in ast.walk(fn_)) and self._ext(fn_) is not None):
                return None
        return r if all(isinstance(a, ast.Constant) for a in args) else None

    def _apply_callobj(self, kind: str, ctor: ast.Call, n: ast.Call) -> ast.AST | None:
        """the call `n` of a library callable object built by `ctor`, written out"""
        if any(isinstance(a, ast.Starred) for a in n.args) or any(kw.arg is None for kw in n.keywords):
            return None
        if kind == "partial":
            new = ast.Call(func=_cl(ctor.args[0]), args=[*_cl(ctor.args[1:]), *n.args], keywords=[*_cl(ctor.keywords), *n.keywords])
            if {kw.arg for kw in ctor.keywords} & {kw.arg for kw in n.keywords}:
                return None
            # evaluation order: the bound arguments were evaluated when the object was built
            if not all(_pure_simple(a) for a in [*ctor.args, *[kw.value for kw in ctor.keywords]]):
                return None
            new._stk = getattr(n, "_stk", ())
            return ast.copy_location(new, n)
        if len(n.args) != 1 or n.keywords:
            return None
        x = n.args[0]
        if kind == "methodcaller":
            name = ctor.args[0]
            if not (isinstance(name, ast.Constant) and isinstance(name.value, str) and name.value.isidentifier()):
                return None
            rest = [*ctor.args[1:], *[kw.value for kw in ctor.keywords]]
            if rest and not (_pure_simple(x) or all(_pure_simple(a) for a in rest)):
                return None
            new = ast.Call(func=ast.Attribute(value=x, attr=name.value, ctx=ast.Load()), args=_cl(ctor.args[1:]), keywords=_cl(ctor.keywords))
            new._stk = getattr(n, "_stk", ())
            return ast.fix_missing_locations(ast.copy_location(new, n))
        if len(ctor.args) > 1 and not _pure_simple(x):
            return None

        def one(a: ast.AST, obj: ast.AST) -> ast.AST | None:
            if kind == "itemgetter":
                return ast.Subscript(value=obj, slice=_cl(a), ctx=ast.Load()) if _pure_simple(a) or isinstance(a, ast.Slice) else None
            if not (isinstance(a, ast.Constant) and isinstance(a.value, str) and a.value and all(p.isidentifier() for p in a.value.split("."))):
                return None
            for p in a.value.split("."):
                obj = ast.Attribute(value=obj, attr=p, ctx=ast.Load())
            return obj
        parts = [one(a, x if len(ctor.args) == 1 else _cl(x)) for a in ctor.args]
        if any(p is None for p in parts):
            return None
        new = parts[0] if len(parts) == 1 else ast.Tuple(elts=parts, ctx=ast.Load())
        return ast.fix_missing_locations(ast.copy_location(new, n))

    @staticmethod
    def _apply_operator(name: str, n: ast.Call) -> ast.AST | None:
        """`operator.<name>(args)` written with the operator it stands for"""
        if n.keywords or any(isinstance(a, ast.Starred) for a in n.args):
            return None
        a = n.args
        new = None
        if name in _OP_COMPARE and len(a) == 2:
            new = ast.Compare(left=a[0], ops=[_OP_COMPARE[name]()], comparators=[a[1]])
        elif name in _OP_BINARY and len(a) == 2:
            new = ast.BinOp(left=a[0], op=_OP_BINARY[name](), right=a[1])
        elif name == "contains" and len(a) == 2 and (_pure_simple(a[0]) or _pure_simple(a[1])):
            new = ast.Compare(left=a[1], ops=[ast.In()], comparators=[a[0]])
        elif name == "not_" and len(a) == 1:
            new = ast.UnaryOp(op=ast.Not(), operand=a[0])
        elif name == "truth" and len(a) == 1:
            new = ast.Call(func=ast.Name(id="bool", ctx=ast.Load()), args=[a[0]], keywords=[])
        elif name == "getitem" and len(a) == 2:
            new = ast.Subscript(value=a[0], slice=a[1], ctx=ast.Load())
        return None if new is None else ast.fix_missing_locations(ast.copy_location(new, n))

    def _class_of(self, e: ast.AST):
        """the class of this package a (non-local) name denotes"""
        if isinstance(e, ast.Name) and e.id not in self.locals:
            for m in self._mods():
                r = self.repo.resolve_name(m, e.id)
                if r is not None:
                    from ..model import ClassInfo
                    return r if isinstance(r, ClassInfo) else None
        return None

    def _record(self, e: ast.AST):
        """(class, [(field, default)]) when e is a constructor call `R(...)` of a NamedTuple / dataclass whose constructor is the generated one"""
        if not isinstance(e, ast.Call) or any(isinstance(a, ast.Starred) for a in e.args) or any(kw.arg is None for kw in e.keywords):
            return None
        c = self._class_of(e.func)
        if c is None:
            return None
        hit = _RECORDS.get(id(c.node))
        if hit is None or hit[0] is not c.node:
            if len(_RECORDS) > 400:
                _RECORDS.clear()
            hit = _RECORDS[id(c.node)] = (c.node, _record_fields(c))
        return None if hit[1] is None else (c, hit[1])

    def _record_args(self, e: ast.Call) -> dict[str, ast.AST] | None:
        """field -> argument expression of a record constructor call"""
        r = self._record(e)
        if r is None:
            return None
        fields = r[1]
        if len(e.args) > len(fields):
            return None
        out: dict[str, ast.AST] = {}
        for (name, _d), a in zip(fields, e.args):
            out[name] = a
        for kw in e.keywords:
            if kw.arg in out or kw.arg not in [f for f, d in fields]:
                return None
            out[kw.arg] = kw.value
        for name, d in fields:
            if name not in out:
                if d is None or not isinstance(d, ast.Constant):
                    return None
                out[name] = d
        return out

    def _project(self, e: ast.Call, field) -> ast.AST | None:
        """`R(a, b).field` / `R(a, b)[i]`: the argument, when dropping the evaluation of the other arguments changes nothing"""
        args = self._record_args(e)
        if args is None:
            return None
        r = self._record(e)
        if isinstance(field, int):
            if not _is_namedtuple(r[0]) or not -len(r[1]) <= field < len(r[1]):
                return None
            field = r[1][field][0]
        if field not in args:
            return None
        if not all(_pure_expr(v) for k, v in args.items() if k != field):
            return None
        return _cl(args[field])

    def _record_member(self, e: ast.Call, name: str, called: bool) -> ast.AST | None:
        """`R(a, b).prop` / `R(a, b).method()` for a property / parameterless method of the record that is one `return <expr over self.fields>`"""
        r = self._record(e)
        args = self._record_args(e) if r is not None else None
        if args is None or not all(_pure_expr(v) for v in args.values()):
            return None
        m = r[0].methods.get(name)
        if m is None or m.is_async:
            return None
        decs = m.decorator_names()
        if (decs != ["property"] and not called) or (called and decs) or len(m.params()) != 1:
            return None
        body = [s_ for s_ in m.node.body if not _is_doc(s_)]
        if len(body) != 1 or not isinstance(body[0], ast.Return) or body[0].value is None:
            return None
        me_ = m.params()[0]
        ok = True

        class R(ast.NodeTransformer):
            def visit_Attribute(self, n):  # noqa: N802
                nonlocal ok
                if isinstance(n.value, ast.Name) and n.value.id == me_:
                    if isinstance(n.ctx, ast.Load) and n.attr in args:
                        return ast.copy_location(_cl(args[n.attr]), n)
                    ok = False
                    return n
                return self.generic_visit(n)

            def visit_Name(self, n):  # noqa: N802
                nonlocal ok
                if n.id == me_ or (n.id not in ("True", "False", "None") and not n.id.isupper() and n.id not in ("len", "bool", "isinstance")):
                    ok = False
                return n
        val = R().visit(_cl(body[0].value))
        if not ok or any(isinstance(x, (ast.Lambda, *_COMPS, ast.NamedExpr, ast.Await)) for x in ast.walk(val)):
            return None
        return ast.fix_missing_locations(val)

    def _ctor_kind(self, e: ast.AST) -> str | None:
        """a call that builds an immutable helper object out of its arguments and does nothing else"""
        if not isinstance(e, ast.Call):
            return None
        if self._callobj(e, 0) is not None:
            return "callobj"
        if self._record(e) is not None and self._record_args(e) is not None:
            return "record"
        if self._callable_class(e) is not None:
            return "callclass"
        return None

    def _callable_class(self, e: ast.AST):
        """(class, {attribute: constructor parameter}, constructor FuncInfo | None) when e is `_C(...)`: a private class of this package
        whose constructor only stores its parameters and that has a __call__ reading them"""
        if not isinstance(e, ast.Call):
            return None
        c = self._class_of(e.func)
        if c is None or not _is_private(c.name) or "__call__" not in c.methods or c.bases or [b for b in c.base_names if b != "object"]:
            return None
        hit = _CALLCLASSES.get(id(c.node))
        if hit is None or hit[0] is not c.node:
            if len(_CALLCLASSES) > 400:
                _CALLCLASSES.clear()
            hit = _CALLCLASSES[id(c.node)] = (c.node, _stored_params(c))
        return None if hit[1] is None else (c, hit[1])

    def _fold(self, e: ast.AST) -> ast.AST:
        """bottom-up constant folding of one expression (tests on constants, lookups in literal tables)"""
        me = self

        class F(ast.NodeTransformer):
            def visit_UnaryOp(self, n):  # noqa: N802
                self.generic_visit(n)
                if isinstance(n.op, ast.Not):
                    t = me._truth(n.operand)
                    if t is not None:
                        me.changed = True
                        return ast.copy_location(ast.Constant(not t), n)
                return n

            def visit_BoolOp(self, n):  # noqa: N802
                self.generic_visit(n)
                vals = []
                is_and = isinstance(n.op, ast.And)
                for v in n.values:
                    t = me._truth(v)
                    if t is None:
                        vals.append(v)
                    elif t != is_and:              # False in `and` / True in `or`: the value of the expression, later operands unevaluated
                        vals.append(v)
                        break
                    elif v is n.values[-1]:
                        vals.append(v)
                if len(vals) != len(n.values):
                    me.changed = True
                if len(vals) == 1:
                    return vals[0]
                n.values = vals
                return n

            def visit_IfExp(self, n):  # noqa: N802
                self.generic_visit(n)
                t = me._truth(n.test)
                if t is None:
                    return n
                me.changed = True
                return n.body if t else n.orelse

            def visit_Compare(self, n):  # noqa: N802
                self.generic_visit(n)
                if len(n.ops) != 1:
                    return n
                # `b is True` / `b is not False` / `b == True` for a truth value b is `b`; `b is False` ... is `not b`
                if isinstance(n.ops[0], (ast.Is, ast.IsNot, ast.Eq, ast.NotEq)):
                    for a, b in ((n.left, n.comparators[0]), (n.comparators[0], n.left)):
                        if isinstance(b, ast.Constant) and isinstance(b.value, bool) and not isinstance(a, ast.Constant) and me._bool_valued(a):
                            me.changed = True
                            same = b.value == isinstance(n.ops[0], (ast.Is, ast.Eq))
                            return a if same else ast.copy_location(ast.UnaryOp(op=ast.Not(), operand=a), n)
                r = me._compare(n.left, n.ops[0], n.comparators[0])
                if r is None:
                    return n
                me.changed = True
                return ast.copy_location(ast.Constant(r), n)

            def visit_BinOp(self, n):  # noqa: N802
                self.generic_visit(n)
                if isinstance(n.op, ast.Add) and isinstance(n.left, ast.Constant) and isinstance(n.right, ast.Constant) \
                        and isinstance(n.left.value, str) and isinstance(n.right.value, str):
                    me.changed = True
                    return ast.copy_location(ast.Constant(n.left.value + n.right.value), n)
                r = me._arith(n.left, n.op, n.right)
                if r is not None:
                    me.changed = True
                    return ast.copy_location(ast.Constant(r), n)
                return n

            def visit_JoinedStr(self, n):  # noqa: N802
                self.generic_visit(n)
                parts = []
                for v in n.values:
                    if isinstance(v, ast.Constant) and isinstance(v.value, str):
                        parts.append(v.value)
                    elif isinstance(v, ast.FormattedValue) and v.conversion == -1 and v.format_spec is None and isinstance(v.value, ast.Constant) and isinstance(v.value.value, str):
                        parts.append(v.value.value)
                    else:
                        return n
                me.changed = True
                return ast.copy_location(ast.Constant("".join(parts)), n)

            def visit_Subscript(self, n):  # noqa: N802
                self.generic_visit(n)
                if not isinstance(n.ctx, ast.Load):
                    return n
                k = me._const_of(n.slice)
                sym = me._symbol(n.slice)
                if isinstance(k, int) and not isinstance(k, bool) and isinstance(n.value, ast.Call) and me._record(n.value) is not None:
                    r = me._project(n.value, k)
                    if r is not None:
                        me.changed = True
                        return ast.copy_location(r, n)
                if k is _NOCONST and sym is None:
                    return n
                r = me._lookup(n.value, k, sym, n)
                if r is None:
                    return n
                me.changed = True
                return r

            def visit_Attribute(self, n):  # noqa: N802
                self.generic_visit(n)
                if isinstance(n.ctx, ast.Load) and isinstance(n.value, ast.Call) and me._record(n.value) is not None:
                    r = me._project(n.value, n.attr)
                    if r is None:
                        r = me._record_member(n.value, n.attr, False)
                    if r is not None:
                        me.changed = True
                        return ast.copy_location(r, n)
                return n

            def _call_main(self, n):
                self.generic_visit(n)
                f = n.func
                if isinstance(f, ast.Attribute) and isinstance(f.value, ast.Call) and not n.args and not n.keywords and me._record(f.value) is not None:
                    r = me._record_member(f.value, f.attr, True)
                    if r is not None:
                        me.changed = True
                        return ast.copy_location(r, n)
                # library callables written out: operator.eq(a, b), attrgetter("x")(o), methodcaller("m")(o), partial(f, a)(b)
                k = me._ext(f)
                if k is not None and k.startswith("operator."):
                    r = me._apply_operator(k.split(".", 1)[1], n)
                    if r is not None:
                        me.changed = True
                        return r
                if k == "functools.reduce" and len(n.args) in (2, 3) and not n.keywords and isinstance(n.args[1], (ast.Tuple, ast.List)) and n.args[1].elts \
                        and not any(isinstance(x, ast.Starred) for x in n.args[1].elts) and me._ext(n.args[0]) in ("operator.add", "operator.concat"):
                    parts = ([n.args[2]] if len(n.args) == 3 else []) + list(n.args[1].elts)
                    acc = parts[0]
                    for x in parts[1:]:
                        acc = ast.BinOp(left=acc, op=ast.Add(), right=x)
                    me.changed = True
                    return ast.fix_missing_locations(ast.copy_location(acc, n))
                co = me._callobj(f) if isinstance(f, (ast.Call, ast.Name, ast.Attribute)) and k is None else None
                if co is not None:
                    r = me._apply_callobj(co[0], co[1], n)
                    if r is not None:
                        me.changed = True
                        return r
                # isinstance(R(...), R) for a record built right here
                if isinstance(f, ast.Name) and f.id == "isinstance" and len(n.args) == 2 and not n.keywords and isinstance(n.args[0], ast.Call) \
                        and isinstance(n.args[1], ast.Name) and isinstance(n.args[0].func, ast.Name) and n.args[0].func.id == n.args[1].id \
                        and me._record(n.args[0]) is not None and me._record_args(n.args[0]) is not None \
                        and all(_pure_expr(a) for a in [*n.args[0].args, *[kw.value for kw in n.args[0].keywords]]):
                    me.changed = True
                    return ast.copy_location(ast.Constant(True), n)
                # TABLE.get(const[, default])
                if isinstance(f, ast.Attribute) and f.attr == "get" and 1 <= len(n.args) <= 2 and not n.keywords:
                    k = me._const_of(n.args[0])
                    sym = me._symbol(n.args[0])
                    if k is not _NOCONST or sym is not None:
                        r = me._lookup(f.value, k, sym, n, default=n.args[1] if len(n.args) == 2 else ast.Constant(None))
                        if r is not None:
                            me.changed = True
                            return r
                # filter(pred, xs) -> (v for v in xs if pred(v));  map(fn, xs) -> (fn(v) for v in xs)   (both lazy, same evaluation)
                kind_ = f.id if isinstance(f, ast.Name) and f.id in ("filter", "map") and f.id not in me.locals else \
                    "filterfalse" if me._ext(f) == "itertools.filterfalse" else None
                if kind_ is not None and len(n.args) == 2 and not n.keywords and not any(isinstance(a, ast.Starred) for a in n.args):
                    fn_, xs = n.args
                    var = None
                    if isinstance(fn_, ast.Lambda) and len(fn_.args.args) == 1 and not (fn_.args.posonlyargs or fn_.args.kwonlyargs or fn_.args.vararg or fn_.args.kwarg or fn_.args.defaults):
                        var, app = fn_.args.args[0].arg, fn_.body
                    elif (_pure_simple(fn_) or (isinstance(fn_, ast.Call) and me._ctor_kind(fn_) is not None and
                                                all(me._arg_ok(a) for a in [*fn_.args, *[kw.value for kw in fn_.keywords]]))) \
                            and not (isinstance(fn_, ast.Constant) and kind_ == "map"):
                        var = me._tmp("v")
                        app = ast.Name(id=var, ctx=ast.Load()) if isinstance(fn_, ast.Constant) and fn_.value is None else \
                            ast.Call(func=fn_, args=[ast.Name(id=var, ctx=ast.Load())], keywords=[])
                        if isinstance(app, ast.Call):
                            app._stk = getattr(n, "_stk", ())
                    if var is not None:
                        me.changed = True
                        gen = ast.comprehension(target=ast.Name(id=var, ctx=ast.Store()), iter=xs, ifs=[app] if kind_ == "filter" else [ast.UnaryOp(op=ast.Not(), operand=app)] if kind_ == "filterfalse" else [], is_async=0)
                        elt = ast.Name(id=var, ctx=ast.Load()) if kind_ != "map" else app
                        return ast.fix_missing_locations(ast.copy_location(ast.GeneratorExp(elt=elt, generators=[gen]), n))
                # getattr(self, "name")
                if isinstance(f, ast.Name) and f.id == "getattr" and len(n.args) == 2 and not n.keywords and isinstance(n.args[1], ast.Constant) \
                        and isinstance(n.args[1].value, str) and n.args[1].value.isidentifier() and _pure_simple(n.args[0]):
                    me.changed = True
                    return ast.copy_location(ast.Attribute(value=n.args[0], attr=n.args[1].value, ctx=ast.Load()), n)
                return n

            def visit_Lambda(self, n):  # noqa: N802
                return n

            def _unrolled(self, n):
                """[f(x) for x in ("a", "b")] -> [f("a"), f("b")]: a comprehension over a short literal table of constants, written out"""
                if len(n.generators) != 1 or n.generators[0].is_async or not isinstance(n.generators[0].target, ast.Name):
                    return None
                g = n.generators[0]
                if isinstance(g.iter, (ast.Tuple, ast.List)) and not g.ifs and isinstance(n.elt, ast.Name) and n.elt.id == g.target.id \
                        and not any(isinstance(x, ast.Starred) for x in g.iter.elts):
                    return list(g.iter.elts)             # [x for x in (a, b)] is [a, b]
                tab, _owner = me._table(g.iter)
                if not isinstance(tab, (ast.Tuple, ast.List)) or not 0 < len(tab.elts) <= 8 or not all(isinstance(x, ast.Constant) for x in tab.elts):
                    return None
                var = g.target.id
                if any(isinstance(x, (ast.NamedExpr, ast.Lambda, *_COMPS)) for part in (n.elt, *g.ifs) for x in ast.walk(part)) or \
                        any(isinstance(x, ast.Name) and x.id == var and not isinstance(x.ctx, ast.Load) for part in (n.elt, *g.ifs) for x in ast.walk(part)):
                    return None
                out = []
                for c in tab.elts:
                    keep = True
                    for cond in g.ifs:
                        t = me._truth(me._fold(_Sub({var: c}).visit(_cl(cond))))
                        if t is None:
                            return None
                        keep = keep and t
                    if keep:
                        out.append(me._fold(_Sub({var: c}).visit(_cl(n.elt))))
                return out

            def visit_ListComp(self, n):  # noqa: N802
                self.generic_visit(n)
                elts = self._unrolled(n)
                if elts is None:
                    return n
                me.changed = True
                return ast.fix_missing_locations(ast.copy_location(ast.List(elts=elts, ctx=ast.Load()), n))

            def visit_Call(self, n):  # noqa: N802
                # a generator over a literal table handed to a consumer that exhausts it at once: join / tuple / list / sum ...
                if len(n.args) == 1 and not n.keywords and isinstance(n.args[0], ast.GeneratorExp) and \
                        ((isinstance(n.func, ast.Name) and n.func.id in _EXHAUSTING and n.func.id not in me.locals) or
                         (isinstance(n.func, ast.Attribute) and n.func.attr == "join" and isinstance(n.func.value, ast.Constant))):
                    self.generic_visit(n.args[0])
                    elts = self._unrolled(n.args[0])
                    if elts is not None:
                        me.changed = True
                        n.args[0] = ast.fix_missing_locations(ast.copy_location(ast.Tuple(elts=elts, ctx=ast.Load()), n.args[0]))
                if isinstance(n.func, ast.Name) and n.func.id == "list" and "list" not in me.locals and len(n.args) == 1 and not n.keywords \
                        and isinstance(n.args[0], ast.GeneratorExp):
                    me.changed = True                  # list(<generator expression>) is the list comprehension
                    g = n.args[0]
                    return self.visit(ast.copy_location(ast.ListComp(elt=g.elt, generators=g.generators), n))
                return self._call_main(n)
        return F().visit(e)

    @staticmethod
    def _arith(left: ast.AST, op: ast.operator, right: ast.AST) -> int | None:
        """small integer arithmetic on literal operands (state counters, bit flags)"""
        if not (isinstance(left, ast.Constant) and isinstance(right, ast.Constant)):
            return None
        a, b = left.value, right.value
        if type(a) is not int or type(b) is not int or abs(a) > 1 << 16 or abs(b) > 1 << 16:
            return None
        if isinstance(op, ast.Add):
            return a + b
        if isinstance(op, ast.Sub):
            return a - b
        if isinstance(op, ast.Mult):
            return a * b
        if isinstance(op, ast.BitOr):
            return a | b
        if isinstance(op, ast.BitAnd):
            return a & b
        return None

    def _lookup(self, container: ast.AST, k, sym, at: ast.AST, default: ast.AST | None = None) -> ast.AST | None:
        tab, owner = self._table(container)
        if tab is None:
            return None
        if isinstance(tab, ast.Dict):
            if any(x is None for x in tab.keys):
                return None
            for kk, vv in zip(tab.keys, tab.values):
                ck, cs = self._const_of(kk), self._symbol(kk)
                if ck is _NOCONST and cs is None:
                    return None
                if (sym is not None and cs == sym) or (sym is None and ck is not _NOCONST and type(ck) is type(k) and ck == k):
                    return self._table_entry(vv, owner, at)
            return _cl(default) if default is not None else None
        if default is not None or sym is not None or not isinstance(k, int) or isinstance(k, bool) or not -len(tab.elts) <= k < len(tab.elts):
            return None
        if any(isinstance(x, ast.Starred) for x in tab.elts):
            return None
        return self._table_entry(tab.elts[k], owner, at)

    def _truth(self, e: ast.AST) -> bool | None:
        if isinstance(e, ast.Constant):
            return bool(e.value)
        if isinstance(e, (ast.Tuple, ast.List, ast.Dict, ast.Set)) and not isinstance(getattr(e, "ctx", None), ast.Store):
            items = e.keys if isinstance(e, ast.Dict) else e.elts
            if not items:
                return False
            return True if all(_pure_simple(x) for x in items if x is not None) and not any(isinstance(x, ast.Starred) for x in items) else None
        return None

    def _compare(self, left: ast.AST, op: ast.cmpop, right: ast.AST) -> bool | None:
        if isinstance(op, (ast.Is, ast.IsNot)):
            pos = isinstance(op, ast.Is)
            for a, b in ((left, right), (right, left)):
                if isinstance(b, ast.Constant) and b.value is None:
                    if isinstance(a, ast.Constant):
                        return (a.value is None) == pos
                    if isinstance(a, ast.Name) and a.id in self.nonnull:
                        return not pos
                    if isinstance(a, (ast.Tuple, ast.List, ast.Dict, ast.Set, ast.JoinedStr, ast.ListComp, ast.DictComp, ast.SetComp, ast.Lambda)):
                        return not pos
            if isinstance(left, ast.Constant) and isinstance(right, ast.Constant) and all(isinstance(x.value, (bool, type(None))) for x in (left, right)):
                return (left.value is right.value) == pos
            sl, sr = self._symbol(left), self._symbol(right)
            if sl is not None and sr is not None:
                return self._same_symbol(left, right, sl, sr, pos)
            if isinstance(left, ast.Attribute) and isinstance(right, ast.Attribute) and left.attr.isupper() and right.attr.isupper() and chain(left.value) == chain(right.value):
                # members of one Enum class with literal values: the same member iff the values are equal (equal values are aliases)
                c = self._class_of(left.value) or self.repo.resolve_class_expr(self.mod, left.value)
                lv, rv = self._const_of(left), self._const_of(right)
                if c is not None and any("Enum" in n or "Flag" in n for n in c.all_base_names()) and lv is not _NOCONST and rv is not _NOCONST:
                    return (type(lv) is type(rv) and lv == rv) == pos
            return None
        lv, rv = self._const_of(left), self._const_of(right)
        if lv is not _NOCONST and rv is not _NOCONST:
            try:
                if isinstance(op, ast.Eq):
                    return lv == rv
                if isinstance(op, ast.NotEq):
                    return lv != rv
                if isinstance(op, ast.In):
                    return lv in rv
                if isinstance(op, ast.NotIn):
                    return lv not in rv
                if isinstance(op, ast.Lt):
                    return lv < rv
                if isinstance(op, ast.LtE):
                    return lv <= rv
                if isinstance(op, ast.Gt):
                    return lv > rv
                if isinstance(op, ast.GtE):
                    return lv >= rv
            except Exception:  # noqa: BLE001
                return None
            return None
        if isinstance(op, (ast.Eq, ast.NotEq)):
            sl, sr = self._symbol(left), self._symbol(right)
            if sl is not None and sr is not None:
                return self._same_symbol(left, right, sl, sr, isinstance(op, ast.Eq))
        if isinstance(op, (ast.In, ast.NotIn)) and isinstance(right, (ast.Tuple, ast.List, ast.Set)):
            sl = self._symbol(left)
            syms = [self._symbol(x) for x in right.elts]
            if sl is not None and all(s is not None for s in syms) and all(self._same_symbol(left, x, sl, s, True) is not None for x, s in zip(right.elts, syms)):
                return any(self._same_symbol(left, x, sl, s, True) for x, s in zip(right.elts, syms)) == isinstance(op, ast.In)
        return None

    def _same_symbol(self, a: ast.AST, b: ast.AST, sa: str, sb: str, pos: bool) -> bool | None:
        if sa == sb:
            return pos
        # two different members of one Enum class are different objects
        if isinstance(a, ast.Attribute) and isinstance(b, ast.Attribute) and chain(a.value) == chain(b.value):
            c = self.repo.resolve_class_expr(self.mod, a.value)
            if c is not None and any("Enum" in n or "Flag" in n for n in c.all_base_names()):
                va, vb = c.lookup_attr(a.attr), c.lookup_attr(b.attr)
                if va is not None and vb is not None and norm(va) != norm(vb) or (va is not None and vb is not None and isinstance(va, ast.Call)):
                    return not pos
        return None

    # constant propagation over statements ----------------------------------------------------------------
    @property
    def locals(self) -> set[str]:
        return _stored_names(self.fn.body) | set(self.fi.params())

    def _ex(self, e, env: dict):
        if e is None:
            return None
        if env:
            live = {k: v for k, v in env.items()}
            if any(isinstance(x, ast.Name) and isinstance(x.ctx, ast.Load) and x.id in live for x in ast.walk(e)):
                e = _Sub(live, into_lambda=False).visit(e)
                self.changed = True
        return self._fold(e)

    def _ex_target(self, t, env: dict):
        """propagate into the expressions a store target evaluates (`alias[k] = v`, `alias.x = v`); the stored name itself is left alone"""
        if isinstance(t, ast.Name):
            return t
        if env and any(isinstance(x, ast.Name) and isinstance(x.ctx, ast.Load) and x.id in env for x in ast.walk(t)):
            t = _Sub(dict(env), into_lambda=False).visit(t)
            self.changed = True
        for x in ast.walk(t):
            if isinstance(x, ast.Subscript):
                x.slice = self._fold(x.slice)
        return t

    def _kill(self, env: dict, names: set[str]) -> None:
        for n in names:
            env.pop(n, None)
        for k in [k for k, v in env.items() if any(isinstance(x, ast.Name) and x.id in names for x in ast.walk(v))]:
            env.pop(k, None)

    def _stable_chain(self, e: ast.AST) -> bool:
        """`self.elements`, `token.previous_token_hash` ...: an attribute chain every attribute of which is only ever assigned in
        constructors - a local bound to it is a second name for the same object / value"""
        if not isinstance(e, ast.Attribute):
            return False
        while isinstance(e, ast.Attribute):
            if not _stable_attr(self.repo, e.attr):
                return False
            e = e.value
        return isinstance(e, ast.Name)

    def _assign_env(self, env: dict, target: ast.AST, value: ast.AST | None) -> None:
        if isinstance(target, ast.Name):
            self._kill(env, {target.id})
            if value is not None and ((_is_constlike(value) and not isinstance(value, ast.Name)) or self._stable_chain(value) or self._object_value(target.id, value)) \
                    and not any(isinstance(x, ast.Name) and x.id == target.id for x in ast.walk(value)):
                env[target.id] = value
        elif isinstance(target, (ast.Tuple, ast.List)) and isinstance(value, ast.Call) and _is_namedtuple_call(self, value) \
                and len(target.elts) == len(self._record(value)[1]) and not any(isinstance(x, ast.Starred) for x in target.elts):
            args = self._record_args(value)
            for t, (f, _d) in zip(target.elts, self._record(value)[1]):
                self._assign_env(env, t, args[f])
        elif isinstance(target, (ast.Tuple, ast.List)) and isinstance(value, (ast.Tuple, ast.List)) and len(target.elts) == len(value.elts) \
                and not any(isinstance(x, ast.Starred) for x in [*target.elts, *value.elts]):
            for t, v in zip(target.elts, value.elts):
                self._assign_env(env, t, v)
        else:
            self._kill(env, _stored_names([target]))

    def _bool_valued(self, e: ast.AST, depth: int = 3) -> bool:
        """e evaluates to True or False (comparison, negation, and / or of such, bool(...), a local only ever assigned such values)"""
        if isinstance(e, ast.Constant):
            return isinstance(e.value, bool)
        if isinstance(e, ast.Compare):
            return True
        if isinstance(e, ast.UnaryOp) and isinstance(e.op, ast.Not):
            return True
        if isinstance(e, ast.BoolOp):
            return all(self._bool_valued(v, depth) for v in e.values)
        if isinstance(e, ast.IfExp):
            return self._bool_valued(e.body, depth) and self._bool_valued(e.orelse, depth)
        if isinstance(e, ast.Call) and isinstance(e.func, ast.Name) and e.func.id in ("bool", "isinstance", "all", "any", "callable", "hasattr", "issubclass"):
            return e.func.id not in self.locals
        if isinstance(e, ast.Name) and depth > 0 and e.id not in self.fi.params():
            vals = []
            for x in _walk_scope(list(self.fn.body)):
                if isinstance(x, ast.Name) and x.id == e.id and isinstance(x.ctx, (ast.Store, ast.Del)):
                    st = next((y for y in _walk_scope(list(self.fn.body)) if isinstance(y, (ast.Assign, ast.AnnAssign)) and
                               any(t is x for t in (y.targets if isinstance(y, ast.Assign) else [y.target]))), None)
                    if st is None or st.value is None:
                        return False
                    vals.append(st.value)
            return bool(vals) and all(self._bool_valued(v, depth - 1) for v in vals)
        return False

    def _arg_ok(self, a: ast.AST) -> bool:
        """an argument whose value is the same wherever it is read while the names in it are not rebound: constant, local, attribute chain
        that is only assigned in constructors"""
        if isinstance(a, (ast.Constant, ast.Name)) or _is_constlike(a):
            return True
        return self._stable_chain(a)

    def _is_decision(self, v: ast.AST) -> bool:
        """a value that tells the code that receives it what to do: a constant / enum member, or a tuple / record carrying one"""
        if _is_constlike(v):
            return True
        if isinstance(v, ast.Tuple):
            return any(_is_constlike(x) for x in v.elts)
        if isinstance(v, ast.Call) and self._record(v) is not None:
            return any(_is_constlike(x) for x in [*v.args, *[kw.value for kw in v.keywords]])
        return False

    def _object_value(self, name: str, value: ast.AST) -> bool:
        """`name = R(a, b)` / `name = attrgetter("x")` / `name = _Callable(a)` with simple arguments: `name` stands for that immutable
        object wherever the arguments still mean the same (the environment forgets it when one of them is rebound)"""
        if not isinstance(value, ast.Call) or not all(self._arg_ok(a) for a in [*value.args, *[kw.value for kw in value.keywords]]):
            return False
        kind = self._ctor_kind(value)
        if kind is None:
            return False
        if kind == "record" and not _is_namedtuple(self._record(value)[0]) and not _is_frozen(self._record(value)[0]):
            # a dataclass instance can be modified: not when it stays in this function and no attribute of it is stored
            for x in _walk_scope(list(self.fn.body)):
                if isinstance(x, ast.Attribute) and isinstance(x.ctx, (ast.Store, ast.Del)) and isinstance(x.value, ast.Name) and x.value.id == name:
                    return False
                if isinstance(x, ast.Call) and any(isinstance(a, ast.Name) and a.id == name for a in [*x.args, *[kw.value for kw in x.keywords]]) and \
                        not (isinstance(x.func, ast.Name) and x.func.id in ("isinstance", "type", "id", "repr", "str")):
                    return False
        return True

    @staticmethod
    def _merge(e1: dict | None, e2: dict | None) -> dict | None:
        if e1 is None:
            return e2
        if e2 is None:
            return e1
        return {k: v for k, v in e1.items() if k in e2 and ast.dump(e2[k]) == ast.dump(v)}

    def _block(self, stmts: list, env: dict):
        """(simplified statements, constants known after the block or None when the block never completes normally)"""
        out: list = []
        stmts = list(stmts)
        i = 0
        while i < len(stmts):
            st = stmts[i]
            i += 1
            if isinstance(st, _SCOPES):
                if isinstance(st, ast.FunctionDef) and not any(isinstance(x, ast.Name) and x.id == st.name for x in ast.walk(self.fn)):
                    self.changed = True          # a local function every call of which was inlined
                    continue
                out.append(st)
                continue
            if isinstance(st, ast.If):
                st.test = self._ex(st.test, env)
                t = self._truth(st.test)
                if t is not None:
                    self.changed = True
                    stmts[i:i] = st.body if t else st.orelse
                    continue
                rest = stmts[i:]
                b, e1 = self._block(st.body, dict(env))
                o, e2 = self._block(st.orelse, dict(env))
                # a decision taken in the branches and acted upon after the `if`: move the continuation into the branches
                if e1 is not None and e2 is not None and rest and self.thread_budget > 0:
                    differs = {k for k in set(e1) | set(e2) if not (k in e1 and k in e2 and ast.dump(e1[k]) == ast.dump(e2[k]))
                               and any(k in e and self._is_decision(e[k]) for e in (e1, e2))}          # decision values only, not aliases
                    if differs & _loaded_names(rest) and _n_stmts(rest) <= 60:
                        self.thread_budget -= 1
                        self.changed = True
                        st.body, st.orelse = b + _cl(rest), o + rest
                        b, e1 = self._block(st.body, dict(env))
                        o, e2 = self._block(st.orelse, dict(env))
                        st.body, st.orelse = b or [ast.copy_location(ast.Pass(), st)], o
                        out.append(st)
                        return out, self._merge(e1, e2)
                st.body, st.orelse = b or [ast.copy_location(ast.Pass(), st)], o
                out.append(st)
                if e1 is None and e2 is None:
                    if stmts[i:]:
                        self.changed = True
                    return out, None
                env.clear()
                env.update(self._merge(e1, e2))
                continue
            if isinstance(st, (ast.Assign, ast.AnnAssign)):
                if st.value is not None:
                    st.value = self._ex(st.value, env)
                if isinstance(st.value, ast.Call) and self._ctor_kind(st.value) is not None:
                    # `d = R(f(x), y)` -> `_a1 = f(x)` / `d = R(_a1, y)`: same evaluation, and `d` now names a value that can be followed
                    pre = []
                    for holder, fld in [(st.value.args, j) for j in range(len(st.value.args))] + [(kw, "value") for kw in st.value.keywords]:
                        a = holder[fld] if isinstance(holder, list) else getattr(holder, fld)
                        if not self._arg_ok(a) and not isinstance(a, ast.Starred):
                            tmp = self._tmp("a")
                            pre.append(ast.copy_location(ast.Assign(targets=[ast.Name(id=tmp, ctx=ast.Store())], value=a), st))
                            new_a = ast.copy_location(ast.Name(id=tmp, ctx=ast.Load()), a)
                            if isinstance(holder, list):
                                holder[fld] = new_a
                            else:
                                setattr(holder, fld, new_a)
                    if pre:
                        self.changed = True
                        ast.fix_missing_locations(st)
                        for x in pre:
                            ast.fix_missing_locations(x)
                        stmts[i - 1:i] = [*pre, st]
                        i -= 1
                        continue
                tgts = st.targets if isinstance(st, ast.Assign) else [st.target]
                for k_, t in enumerate(tgts):
                    t = self._ex_target(t, env)
                    if isinstance(st, ast.Assign):
                        st.targets[k_] = t
                    else:
                        st.target = t
                if isinstance(st, ast.Assign) and len(tgts) == 1 and isinstance(tgts[0], (ast.Tuple, ast.List)) and all(isinstance(t, ast.Name) for t in tgts[0].elts):
                    # `a, b = R(x, y)` / `a, b = x, y` with plain operands none of which is assigned here: `a = x` / `b = y`
                    vals = None
                    if isinstance(st.value, (ast.Tuple, ast.List)) and not any(isinstance(x, ast.Starred) for x in st.value.elts):
                        vals = list(st.value.elts)
                    elif isinstance(st.value, ast.Call) and _is_namedtuple_call(self, st.value):
                        args = self._record_args(st.value)
                        vals = [args[f] for f, _d in self._record(st.value)[1]]
                    names = [t.id for t in tgts[0].elts]
                    if vals is not None and len(vals) == len(names) and len(set(names)) == len(names) and all(_pure_simple(v) for v in vals) \
                            and not (set(names) & {x.id for v in vals for x in ast.walk(v) if isinstance(x, ast.Name)}):
                        self.changed = True
                        stmts[i:i] = [ast.fix_missing_locations(ast.copy_location(ast.Assign(targets=[ast.Name(id=nm, ctx=ast.Store())], value=_cl(v)), st)) for nm, v in zip(names, vals)]
                        continue
                if isinstance(st, ast.Assign) and len(tgts) == 1:
                    self._assign_env(env, tgts[0], st.value)
                elif isinstance(st, ast.AnnAssign) and st.value is not None:
                    self._assign_env(env, st.target, st.value)
                else:
                    self._kill(env, _stored_names(tgts))
                out.append(st)
                continue
            if isinstance(st, ast.AugAssign):
                st.value = self._ex(st.value, env)
                st.target = self._ex_target(st.target, env)
                if isinstance(st.target, ast.Name) and st.target.id in env:
                    r = self._arith(env[st.target.id], st.op, st.value)
                    if r is not None:            # `n = 1` ... `n += 1`: the counter is 2 from here on
                        self.changed = True
                        st = ast.copy_location(ast.Assign(targets=[ast.Name(id=st.target.id, ctx=ast.Store())], value=ast.copy_location(ast.Constant(r), st)), st)
                        self._assign_env(env, st.targets[0], st.value)
                        out.append(st)
                        continue
                self._kill(env, _stored_names([st.target]))
                out.append(st)
                continue
            if isinstance(st, ast.Expr):
                st.value = self._ex(st.value, env)
                out.append(st)
                continue
            if isinstance(st, ast.Return):
                st.value = self._ex(st.value, env)
                out.append(st)
                if stmts[i:]:
                    self.changed = True
                return out, None
            if isinstance(st, ast.Raise):
                st.exc = self._ex(st.exc, env)
                out.append(st)
                if stmts[i:]:
                    self.changed = True
                return out, None
            if isinstance(st, (ast.Break, ast.Continue)):
                out.append(st)
                if stmts[i:]:
                    self.changed = True
                return out, None
            if isinstance(st, (ast.While, ast.For, ast.AsyncFor)):
                if not isinstance(st, ast.While):
                    st.iter = self._ex(st.iter, env)
                self._kill(env, _stored_names([st]))
                if isinstance(st, ast.While):
                    st.test = self._ex(st.test, env)
                    if self._truth(st.test) is False:
                        self.changed = True
                        stmts[i:i] = st.orelse
                        continue
                st.body = self._block(st.body, dict(env))[0] or [ast.copy_location(ast.Pass(), st)]
                st.orelse = self._block(st.orelse, dict(env))[0]
                out.append(st)
                continue
            if isinstance(st, ast.With) and st.items and isinstance(st.items[0].context_expr, ast.Call) and st.items[0].optional_vars is None \
                    and self._ext(st.items[0].context_expr.func) == "contextlib.suppress" and not st.items[0].context_expr.keywords \
                    and all(_pure_simple(a) for a in st.items[0].context_expr.args):
                # `with suppress(E): BODY` is `try: BODY` / `except E: pass` (what contextlib.suppress is documented to do)
                excs = st.items[0].context_expr.args
                inner = st.body if len(st.items) == 1 else [ast.copy_location(ast.With(items=st.items[1:], body=st.body), st)]
                self.changed = True
                if not excs:
                    stmts[i:i] = inner
                    continue
                typ = excs[0] if len(excs) == 1 else ast.Tuple(elts=list(excs), ctx=ast.Load())
                handler = ast.ExceptHandler(type=typ, name=None, body=[ast.Pass()])
                stmts[i:i] = [ast.fix_missing_locations(ast.copy_location(ast.Try(body=inner, handlers=[handler], orelse=[], finalbody=[]), st))]
                continue
            if isinstance(st, (ast.With, ast.AsyncWith)):
                for it in st.items:
                    it.context_expr = self._ex(it.context_expr, env)
                self._kill(env, _stored_names([st]))
                st.body = self._block(st.body, dict(env))[0] or [ast.copy_location(ast.Pass(), st)]
                out.append(st)
                continue
            if isinstance(st, ast.Try):
                self._kill(env, _stored_names([st]))
                st.body = self._block(st.body, dict(env))[0] or [ast.copy_location(ast.Pass(), st)]
                for hd in st.handlers:
                    hd.body = self._block(hd.body, dict(env))[0] or [ast.copy_location(ast.Pass(), st)]
                st.orelse = self._block(st.orelse, dict(env))[0]
                st.finalbody = self._block(st.finalbody, dict(env))[0]
                out.append(st)
                continue
            if isinstance(st, ast.Match):
                st.subject = self._ex(st.subject, env)
                chosen = self._match_case(st)
                if chosen is None:
                    chosen = self._desugar_match(st)
                if chosen is not None:
                    self.changed = True
                    stmts[i:i] = chosen
                    continue
                self._kill(env, _stored_names([st]))
                for c in st.cases:
                    c.body = self._block(c.body, dict(env))[0] or [ast.copy_location(ast.Pass(), st)]
                out.append(st)
                continue
            if isinstance(st, ast.Assert):
                st.test = self._ex(st.test, env)
                out.append(st)
                continue
            if isinstance(st, ast.Delete):
                st.targets = [self._ex_target(t, env) for t in st.targets]
            self._kill(env, _stored_names([st]))
            out.append(st)
        return out, env

    def _desugar_match(self, st: ast.Match) -> list | None:
        """the if / elif chain Python executes for a `match` over values / singletons / captures / or-patterns / fixed-length sequence
        patterns over a tuple display / class patterns over attributes (the subject's parts are evaluated once, first, in order)"""
        try:
            from ..normalize import _named_fields, _pattern
        except ImportError:
            return None
        if getattr(self, "_fields", None) is None:
            self._fields = {}
            for m in reversed(self._mods()):
                self._fields.update(_named_fields(m.tree))
        pre: list = []

        def simple(e: ast.AST) -> ast.AST:
            if _pure_simple(e) and not isinstance(e, ast.Tuple):
                return e
            tmp = self._tmp("m")
            pre.append(ast.copy_location(ast.Assign(targets=[ast.Name(id=tmp, ctx=ast.Store())], value=e), st))
            return ast.copy_location(ast.Name(id=tmp, ctx=ast.Load()), e)
        subj = st.subject
        if isinstance(subj, ast.Tuple) and not any(isinstance(x, ast.Starred) for x in subj.elts):
            subj = ast.copy_location(ast.Tuple(elts=[simple(x) for x in subj.elts], ctx=ast.Load()), subj)
        else:
            subj = simple(subj)
        arms = []
        for c in st.cases:
            r = _pattern(_cl(c.pattern), subj, self._fields)
            if r is None:
                return None
            cond, caps = r
            guard = c.guard
            if guard is not None and caps:
                # the guard reads what the pattern captured: every capture names a part of the subject that is a plain local / temporary
                # here, so the guard over those parts is the same test - provided nothing but this case reads the names it binds
                # (Python leaves the captures of a case whose guard failed bound: a later reader would see them)
                guard = self._guard_over_subject(st, c, caps)
                if guard is None:
                    return None
            if guard is not None:
                cond = guard if cond is None else ast.BoolOp(op=ast.And(), values=[cond, guard])
            arms.append((cond, [ast.copy_location(ast.Assign(targets=[ast.Name(id=k, ctx=ast.Store())], value=v), c.body[0]) for k, v in caps] + c.body))
        chain_: list = []
        for cond, body in reversed(arms):
            chain_ = body if cond is None else [ast.copy_location(ast.If(test=cond, body=body, orelse=chain_), st)]
        out = pre + chain_
        for x in out:
            ast.fix_missing_locations(x)
            for y in ast.walk(x):
                if isinstance(y, ast.Call) and not hasattr(y, "_stk"):
                    y._stk = ()
        return out

    def _guard_over_subject(self, st: ast.Match, case: ast.match_case, caps: list) -> ast.AST | None:
        """the guard of `case` with the names its pattern captured replaced by the subject parts they name, or None if that is not exact"""
        mapping: dict[str, ast.AST] = {}
        callfree = not any(isinstance(x, (ast.Call, ast.NamedExpr, ast.Subscript, ast.BinOp, ast.Await)) or
                           (isinstance(x, ast.Compare) and not all(isinstance(o, (ast.Is, ast.IsNot)) for o in x.ops)) for x in ast.walk(case.guard))
        for k, v in caps:
            # a plain local / temporary is the captured value itself; an attribute of the subject (class pattern) is read when captured and
            # again by the rewritten guard: the same value if nothing runs in between (a guard of identity tests over names / attributes)
            if k in mapping or not (isinstance(v, (ast.Name, ast.Constant)) or (callfree and _pure_simple(v) and not isinstance(v, ast.Tuple))):
                return None
            mapping[k] = v
        touched = set(mapping) | {v.id for v in mapping.values() if isinstance(v, ast.Name)}
        if _stored_names([case.guard]) & touched or any(isinstance(x, (ast.Await, ast.Yield, ast.YieldFrom)) for x in ast.walk(case.guard)):
            return None
        # every reader of a captured name sits in a case (of this statement) that captures the name itself
        covered: set[int] = set()
        for c in st.cases:
            bound = {x.name for x in ast.walk(c.pattern) if isinstance(x, (ast.MatchAs, ast.MatchStar)) and x.name} | \
                    {x.rest for x in ast.walk(c.pattern) if isinstance(x, ast.MatchMapping) and x.rest}
            for part in ([c.guard] if c.guard is not None else []) + list(c.body):
                for x in ast.walk(part):
                    if isinstance(x, ast.Name) and x.id in bound:
                        covered.add(id(x))
        for x in [*ast.walk(self.fn), *ast.walk(st)]:
            if isinstance(x, ast.Name) and x.id in mapping and not isinstance(x.ctx, ast.Store) and id(x) not in covered:
                return None
        return _Sub(mapping).visit(_cl(case.guard))

    def _match_case(self, st: ast.Match) -> list | None:
        """the body selected by a `match` on a constant subject (value / singleton / wildcard patterns only)"""
        if self._const_of(st.subject) is _NOCONST and self._symbol(st.subject) is None:
            return None

        def matches(p, subject) -> bool | None:
            subj = self._const_of(subject)
            if isinstance(p, ast.MatchValue):
                r = self._compare(subject, ast.Eq(), p.value)
                return r
            if isinstance(p, ast.MatchSingleton):
                return None if subj is _NOCONST else subj is p.value
            if isinstance(p, ast.MatchAs) and p.pattern is None and p.name is None:
                return True
            if isinstance(p, ast.MatchOr):
                rs = [matches(x, subject) for x in p.patterns]
                if any(r is True for r in rs):
                    return True
                return None if any(r is None for r in rs) else False
            if isinstance(p, ast.MatchSequence) and not any(isinstance(x, ast.MatchStar) for x in p.patterns):
                if not isinstance(subject, (ast.Tuple, ast.List)):
                    return None if subj is _NOCONST or isinstance(subj, tuple) else False
                if len(subject.elts) != len(p.patterns):
                    return False
                rs = [matches(x, e) for x, e in zip(p.patterns, subject.elts)]
                if any(r is False for r in rs):
                    return False
                return None if any(r is None for r in rs) else True
            return None
        for c in st.cases:
            if c.guard is not None:
                return None
            r = matches(c.pattern, st.subject)
            if r is None:
                return None
            if r:
                return c.body
        return []


_STDLIB = ("operator", "functools", "itertools", "contextlib")
_CALLOBJS = ("operator.attrgetter", "operator.itemgetter", "operator.methodcaller", "functools.partial")
_OP_COMPARE = {"eq": ast.Eq, "ne": ast.NotEq, "lt": ast.Lt, "le": ast.LtE, "gt": ast.Gt, "ge": ast.GtE, "is_": ast.Is, "is_not": ast.IsNot}
_OP_BINARY = {"add": ast.Add, "concat": ast.Add, "sub": ast.Sub, "mul": ast.Mult, "and_": ast.BitAnd, "or_": ast.BitOr, "xor": ast.BitXor, "mod": ast.Mod,
              "floordiv": ast.FloorDiv, "lshift": ast.LShift, "rshift": ast.RShift}
_PURE_CALLS = ("len", "isinstance", "bool", "tuple", "frozenset", "min", "max", "abs", "int", "bytes")
_RECORDS: dict[int, tuple] = {}
_CALLCLASSES: dict[int, tuple] = {}


def _is_namedtuple_call(deep, e: ast.Call) -> bool:
    r = deep._record(e)
    return r is not None and _is_namedtuple(r[0]) and deep._record_args(e) is not None


def _pure_expr(e: ast.AST) -> bool:
    """evaluating e has no effect and needs nothing but the values of the names in it (no calls but a few builtins)"""
    for x in ast.walk(e):
        if isinstance(x, (ast.Await, ast.Yield, ast.YieldFrom, ast.NamedExpr, ast.Lambda, ast.ListComp, ast.SetComp, ast.DictComp, ast.GeneratorExp, ast.Starred)):
            return False
        if isinstance(x, ast.Call) and not (isinstance(x.func, ast.Name) and x.func.id in _PURE_CALLS and not x.keywords):
            return False
    return True


def _is_namedtuple(c) -> bool:
    return any(b.split(".")[-1] == "NamedTuple" for b in c.base_names)


def _is_dataclass(c) -> bool:
    for d in c.node.decorator_list:
        f = d.func if isinstance(d, ast.Call) else d
        if (chain(f) or "").split(".")[-1] == "dataclass":
            if isinstance(d, ast.Call) and any(k.arg == "init" for k in d.keywords):
                return False
            return True
    return False


def _is_frozen(c) -> bool:
    return any(isinstance(d, ast.Call) and any(k.arg == "frozen" and isinstance(k.value, ast.Constant) and k.value.value is True for k in d.keywords)
               for d in c.node.decorator_list)


def _record_fields(c) -> list[tuple[str, ast.AST | None]] | None:
    """[(field, default)] in constructor order for a NamedTuple / dataclass that keeps the generated constructor"""
    nt, dc = _is_namedtuple(c), _is_dataclass(c)
    if not (nt or dc) or (nt and len(c.base_names) != 1) or (dc and (c.base_names or c.node.keywords)):
        return None
    if any(n in c.methods for n in ("__init__", "__new__", "__post_init__", "__getattr__", "__getattribute__", "__getitem__")):
        return None
    out = []
    for st in c.node.body:
        if isinstance(st, ast.AnnAssign) and isinstance(st.target, ast.Name):
            if "ClassVar" in ast.unparse(st.annotation):
                continue
            if isinstance(st.value, ast.Call):
                return None                      # field(...) with options
            out.append((st.target.id, st.value))
    if not out or any(f in c.methods for f, d in out):
        return None
    return out


def _stored_params(c) -> dict | None:
    """{"params": [(parameter, default)], "attrs": {attribute: parameter}} for a class whose constructor only stores its parameters"""
    init = c.methods.get("__init__")
    if init is None:
        fields = _record_fields(c)
        if fields is None:
            return None
        return {"params": fields, "attrs": {f: f for f, d in fields}}
    a = init.node.args
    if a.vararg or a.kwarg or a.posonlyargs or init.node.decorator_list or not a.args:
        return None
    me = a.args[0].arg
    pos = [p.arg for p in a.args[1:]]
    defaults: dict[str, ast.AST | None] = {p: None for p in pos}
    for p, d in zip(pos[len(pos) - len(a.defaults):] if a.defaults else [], a.defaults):
        defaults[p] = d
    if len(a.defaults) > len(pos):
        return None
    params = [(p, defaults[p]) for p in pos]
    for p, d in zip(a.kwonlyargs, a.kw_defaults):
        params.append((p.arg, d))
    if any(d is not None and not isinstance(d, ast.Constant) for p, d in params):
        return None
    names = {p for p, d in params}
    attrs: dict[str, str] = {}
    for st in init.node.body:
        if _is_doc(st) or isinstance(st, ast.Pass):
            continue
        tgt = st.targets[0] if isinstance(st, ast.Assign) and len(st.targets) == 1 else st.target if isinstance(st, ast.AnnAssign) else None
        val = getattr(st, "value", None)
        if not (isinstance(tgt, ast.Attribute) and isinstance(tgt.value, ast.Name) and tgt.value.id == me and isinstance(val, ast.Name) and val.id in names
                and tgt.attr not in attrs):
            return None
        attrs[tgt.attr] = val.id
    # nothing else in the class writes these attributes
    for name, m in c.methods.items():
        if name != "__init__" and any(isinstance(x, ast.Attribute) and isinstance(x.ctx, (ast.Store, ast.Del)) for x in ast.walk(m.node)):
            return None
    return {"params": params, "attrs": attrs}


_STABLE: dict[int, tuple] = {}


def _stable_attr(repo, attr: str) -> bool:
    """every assignment to an attribute of this name in the repository sits in a constructor"""
    hit = _STABLE.get(id(repo))
    if hit is None or hit[0] is not repo:
        unstable: set[str] = set()
        for m in repo.modules.values():
            for f in m.all_functions:
                if f.name == "__init__":
                    continue
                for n in walk_no_nested(f.node):
                    if isinstance(n, ast.Attribute) and isinstance(n.ctx, (ast.Store, ast.Del)):
                        unstable.add(n.attr)
            for n in m.tree.body:                      # module level / class level statements
                for x in ([n] if not isinstance(n, ast.ClassDef) else n.body):
                    if not isinstance(x, (ast.FunctionDef, ast.AsyncFunctionDef, ast.ClassDef)):
                        unstable |= {y.attr for y in ast.walk(x) if isinstance(y, ast.Attribute) and isinstance(y.ctx, (ast.Store, ast.Del))}
        _STABLE.clear()
        hit = _STABLE[id(repo)] = (repo, unstable)
    return attr not in hit[1]


def _is_doc(st: ast.stmt) -> bool:
    return isinstance(st, ast.Expr) and isinstance(st.value, ast.Constant) and isinstance(st.value.value, str)


# ------------------------------------------------------------------------------------ views: cache and source access
_VIEWS: dict[tuple, tuple] = {}
_RAW: dict[int, tuple] = {}


def _raw_repo(repo: Repo) -> Repo:
    """
    The repository model built from the source AS WRITTEN (no load-time normalisation): the views below do their own,
    exact, inlining; nothing a rule of this module decides depends on the spelling of a local.
    """
    if not getattr(repo, "recover_names", False):
        return repo
    hit = _RAW.get(id(repo))
    if hit is not None and hit[0] is repo:
        return hit[1]
    old = os.environ.get("SA_NO_NAME_RECOVERY")
    os.environ["SA_NO_NAME_RECOVERY"] = "1"
    try:
        raw = Repo(repo.root, overrides=repo.overrides, extra_dirs=getattr(repo, "extra_dirs", ()))
    finally:
        if old is None:
            del os.environ["SA_NO_NAME_RECOVERY"]
        else:
            os.environ["SA_NO_NAME_RECOVERY"] = old
    _RAW.clear()
    _RAW[id(repo)] = (repo, raw)
    return raw


def _view(ctx: Ctx, fi: FuncInfo, *, assume_none: tuple[str, ...] = (), assume_set: tuple[str, ...] = ()) -> FuncInfo:
    key = (id(fi.node), assume_none, assume_set)
    hit = _VIEWS.get(key)
    if hit is not None and hit[0] is fi.node:
        _note_residual(ctx, hit[1])
        return hit[1]
    if len(_VIEWS) > 200:
        _VIEWS.clear()
    try:
        v = _Deep(ctx.repo, fi, assume_none=assume_none, assume_set=assume_set).build()
    except AnalysisError:
        raise
    except (RecursionError, Exception) as e:  # noqa: BLE001
        raise AnalysisError(f"undecided: no view of {fi.qualname} could be built ({type(e).__name__}: {e})") from e
    _VIEWS[key] = (fi.node, v)
    _note_residual(ctx, v)
    return v


def _note_residual(ctx: Ctx, v: FuncInfo) -> None:
    """a `match` statement that could not be rewritten exactly into the tests Python executes for it stays in the view: the CFG then knows
    nothing about which case runs when, so a rule that FAILS inside such a function has not decided anything (see run)"""
    res = getattr(v, "residual_match", None)
    if res is None:
        res = any(isinstance(x, ast.Match) for x in ast.walk(v.node))
        v.residual_match = res               # type: ignore[attr-defined]
    if res:
        ctx.__dict__.setdefault("_c16_residual", set()).add(v.qualname)


def _instance_tables(cls) -> dict[str, ast.AST]:
    """`self.X = {...: self._m, ...}` assigned once in the class: the table literal per attribute (a dispatch table kept per instance)"""
    found: dict[str, list] = {}
    for c in cls.mro():
        for m in c.methods.values():
            for n in walk_no_nested(m.node):
                if isinstance(n, (ast.Assign, ast.AnnAssign)):
                    for t in (n.targets if isinstance(n, ast.Assign) else [n.target]):
                        if isinstance(t, ast.Attribute) and isinstance(t.value, ast.Name) and t.value.id == "self":
                            found.setdefault(t.attr, []).append(n.value)
    return {k: v[0] for k, v in found.items() if len(v) == 1 and isinstance(v[0], (ast.Dict, ast.Tuple, ast.List))}


def _private_targets(fi: FuncInfo, node: ast.AST | None = None) -> set[str]:
    """Names of private methods of fi's class that fi mentions (called, passed on, or listed in a dispatch table it reads)."""
    cls = fi.cls
    if cls is None:
        return set()
    out: set[str] = set()
    own = {c.name for c in cls.mro()} | {"self", "cls"}
    itabs = _instance_tables(cls)
    skip = {id(x) for v in itabs.values() for x in ast.walk(v)}          # filling a table is not a use of its entries

    def in_table(tab: ast.AST) -> set[str]:
        r = {x.id for x in ast.walk(tab) if isinstance(x, ast.Name) and _is_private(x.id) and cls.lookup(x.id) is not None}
        r |= {x.attr for x in ast.walk(tab) if isinstance(x, ast.Attribute) and _is_private(x.attr) and cls.lookup(x.attr) is not None}
        return r | {x.value for x in ast.walk(tab) if isinstance(x, ast.Constant) and isinstance(x.value, str) and _is_private(x.value) and cls.lookup(x.value) is not None}
    for n in ast.walk(node if node is not None else fi.node):
        if id(n) in skip:
            continue
        if isinstance(n, ast.Attribute) and isinstance(n.value, ast.Name) and n.value.id in own:
            m = cls.lookup(n.attr)
            if m is not None and _is_private(n.attr):
                out.add(n.attr)
            tab = cls.lookup_attr(n.attr)
            if tab is not None:
                out |= in_table(tab)
            if n.attr in itabs and isinstance(n.ctx, ast.Load):
                out |= in_table(itabs[n.attr])
        elif isinstance(n, ast.Constant) and isinstance(n.value, str) and _is_private(n.value) and cls.lookup(n.value) is not None:
            out.add(n.value)                # getattr(self, "_name")
    return out


def _is_private(name: str) -> bool:
    return name.startswith("_") and not (name.startswith("__") and name.endswith("__"))


def _private_closure(fi: FuncInfo) -> dict[str, FuncInfo]:
    """Private methods of the class transitively reachable from fi through private methods only."""
    out: dict[str, FuncInfo] = {}
    todo = [fi]
    while todo:
        f = todo.pop()
        for name in _private_targets(f):
            if name not in out:
                out[name] = f.cls.lookup(name) if f.cls is not None else None
                if out[name] is not None:
                    todo.append(out[name])
    return {k: v for k, v in out.items() if v is not None}


def _writes(fi_or_node, table: str) -> list[tuple[ast.AST, ast.AST | None, ast.AST | None, str]]:
    """(site, key, value, kind) for every write to the mapping `table`: kind = set | del | bulk | rebind"""
    node = fi_or_node.node if isinstance(fi_or_node, FuncInfo) else fi_or_node
    out: list = []
    for s, t in stores(node, table + "[]"):
        if isinstance(s, ast.Delete):
            out.append((s, t.slice, None, "del"))
        elif isinstance(s, ast.Assign) and any(x is t for x in s.targets):
            out.append((s, t.slice, s.value, "set"))
        elif isinstance(s, ast.AnnAssign) and s.value is not None:
            out.append((s, t.slice, s.value, "set"))
        else:
            out.append((s, t.slice, None, "set"))
    for s, t in stores(node, table):
        if isinstance(s, ast.AugAssign) and isinstance(s.op, ast.BitOr) and isinstance(s.value, ast.Dict) and all(k is not None for k in s.value.keys):
            out.extend((s, k, v, "set") for k, v in zip(s.value.keys, s.value.values))
        elif isinstance(s, ast.Delete):
            out.append((s, None, None, "del"))
        else:
            out.append((s, None, getattr(s, "value", None), "bulk" if isinstance(s, ast.AugAssign) else "rebind"))
    for c in calls(node):
        f = c.func
        if not (isinstance(f, ast.Attribute) and chain(f.value) == table):
            continue
        if f.attr == "__setitem__" and len(c.args) == 2:
            out.append((c, c.args[0], c.args[1], "set"))
        elif f.attr == "setdefault" and c.args:
            out.append((c, c.args[0], c.args[1] if len(c.args) > 1 else ast.Constant(None), "set"))
        elif f.attr == "update":
            d = c.args[0] if len(c.args) == 1 and not c.keywords else None
            if isinstance(d, ast.Dict) and d.keys and all(k is not None for k in d.keys):
                out.extend((c, k, v, "set") for k, v in zip(d.keys, d.values))
            else:
                out.append((c, None, d, "bulk"))
        elif f.attr in ("pop", "popitem", "clear", "__delitem__"):
            out.append((c, c.args[0] if c.args and f.attr in ("pop", "__delitem__") else None, None, "del"))
        elif f.attr in ("remove", "discard") and len(c.args) == 1:
            out.append((c, c.args[0], None, "del"))                  # list / set spelling of `del table[x]`
        elif f.attr == "popleft" and not c.args:
            out.append((c, None, None, "del"))
        elif f.attr in ("append", "appendleft", "add") and len(c.args) == 1 and not c.keywords:
            out.append((c, c.args[0], None, "add"))                  # un-keyed insertion: the element is its own key
        elif f.attr == "insert" and len(c.args) == 2 and not c.keywords:
            out.append((c, c.args[1], None, "add"))
        elif f.attr == "extend":
            out.append((c, None, c.args[0] if c.args else None, "bulk"))
        elif f.attr in ("move_to_end",):
            continue
    return out


# ------------------------------------------------------------------------------------ "truthy e implies P" as path property
class _Establish:
    """
    Which outcomes of which conditions establish a property P.  `atom(e)` names the outcome of an atomic test that
    establishes P; boolean combinations, flag locals and boolean helper methods that could not be inlined are followed.
    """

    def __init__(self, ctx: Ctx, fi: FuncInfo, depth: int = 2) -> None:
        self.ctx, self.fi, self.depth = ctx, fi, depth
        self.kinds: set[str] = set()
        self.opaque: dict[str, set[bool]] = {}      # helper calls that could not be decided, per outcome

    def atom(self, e: ast.AST) -> tuple[str, bool] | None:
        raise NotImplementedError

    def sub(self, h: FuncInfo, call: ast.Call) -> "_Establish | None":
        return None

    def interesting(self, call: ast.Call) -> bool:
        return False

    def establishes(self, e: ast.AST, pol: bool) -> bool:
        """Does `e` having truthiness `pol` imply P?"""
        e = strip_cast(e)
        if isinstance(e, ast.UnaryOp) and isinstance(e.op, ast.Not):
            return self.establishes(e.operand, not pol)
        if isinstance(e, ast.BoolOp):
            rs = [self.establishes(v, pol) for v in e.values]
            return any(rs) if isinstance(e.op, ast.And) == pol else all(rs)
        if isinstance(e, ast.Constant):
            return bool(e.value) != pol          # this outcome is impossible
        if isinstance(e, ast.IfExp):
            # the value has truthiness pol: either the test held and the first arm has it, or the test failed and the second arm has it
            return (self.establishes(e.test, True) or self.establishes(e.body, pol)) and (self.establishes(e.test, False) or self.establishes(e.orelse, pol))
        if isinstance(e, ast.Name) and e.id == "NotImplemented":
            return True                          # hands the decision to the default comparison / the other operand: never a verdict of its own
        if isinstance(e, ast.Name):
            d = _def_value(self.fi, e)
            # sound for a stale flag too: the token is not rebound, elements only grows, the genesis hash is fixed
            return d is not None and self.establishes(d, pol)
        a = self.atom(e)
        if a is not None:
            self.kinds.add(a[0])
            return a[1] == pol
        if isinstance(e, ast.Call) and self.depth > 0:
            r = self._helper(e, pol)
            if not r and self.interesting(e):
                self.opaque.setdefault(norm(e), set()).add(pol)
            return r
        return False

    def _helper(self, call: ast.Call, pol: bool) -> bool:
        if not (isinstance(call.func, ast.Attribute) and chain(call.func.value) == "self" and self.fi.cls is not None):
            return False
        targets = self.ctx.repo.resolve_call(self.fi, call)
        if len(targets) != 1:
            return False
        h = _view(self.ctx, targets[0])
        sub = self.sub(h, call)
        if sub is None:
            return False
        cfg = self.ctx.cfg(h)
        edge = sub.edge_pred(cfg)
        rets = [r for r in walk_no_nested(h.node) if isinstance(r, ast.Return)]
        falls_off = any(not (n.kind == "stmt" and isinstance(n.ast, ast.Return)) for n, lab in cfg.exit.pred)
        if falls_off and not pol:
            return False                         # implicit `return None` is falsy
        for r in rets:
            v = r.value if r.value is not None else ast.Constant(value=None)
            if sub.establishes(v, pol):
                continue
            if all(cfg.must_pass_edges(n, edge) for n in cfg.nodes_for(r)):
                continue
            return False
        self.kinds |= sub.kinds
        return bool(rets)

    def extra_edges(self, cfg) -> dict:
        return {}

    def edge_pred(self, cfg):
        est: dict = {}
        for n in cfg.nodes:
            if n.kind == "cond":
                labs = {pol for pol in (True, False) if self.establishes(n.ast, pol)}
                if labs:
                    est[n] = labs
        extra = self.extra_edges(cfg)
        return lambda u, v, lab: lab in est.get(u, ()) or (u in extra and lab != "exc")


class _ParentKnown(_Establish):
    """P = `tok.previous_token_hash == self.genesis_hash` or `tok.previous_token_hash in self.elements`."""

    def __init__(self, ctx: Ctx, fi: FuncInfo, tok: str, depth: int = 2) -> None:
        super().__init__(ctx, fi, depth)
        self.tok = tok

    def atom(self, e: ast.AST) -> tuple[str, bool] | None:
        prev = f"{self.tok}.previous_token_hash"
        f = fact_of(e, True)
        if f.op == "eq" and {_x(self.fi, f.left), _x(self.fi, f.right)} == {prev, "self.genesis_hash"}:
            return "genesis", f.pos
        m = _membership(self.fi, f)
        if m is not None and m[0] == prev:
            return "contained", m[1]
        return None

    def interesting(self, call: ast.Call) -> bool:
        return bool(chain(call.func)) and chain(call.func).startswith("self.") and \
            any(_x(self.fi, a) == self.tok for a in [*call.args, *[k.value for k in call.keywords]])

    def sub(self, h: FuncInfo, call: ast.Call):
        ps = h.params()[1:]
        p = next((ps[i] for i, a in enumerate(call.args) if i < len(ps) and _x(self.fi, a) == self.tok), None) or \
            next((k.arg for k in call.keywords if k.arg in ps and _x(self.fi, k.value) == self.tok), None)
        if p is None or local_defs(h, p):
            return None
        return _ParentKnown(self.ctx, h, p, self.depth - 1)

    def extra_edges(self, cfg) -> dict:
        """a lookup `self.elements[tok.previous_token_hash]` that completes normally: the parent is contained (EAFP spelling)"""
        out = {}
        prev = f"{self.tok}.previous_token_hash"
        for n in cfg.nodes:
            if n.kind in ("stmt", "cond") and n.ast is not None and not isinstance(n.ast, (ast.For, ast.While, ast.With, ast.Try)):
                for x in walk_no_nested(n.ast):
                    if isinstance(x, ast.Subscript) and isinstance(x.ctx, ast.Load) and chain(x.value) == "self.elements" and _x(self.fi, x.slice) == prev \
                            and not expr_context_facts(x):
                        out[n] = True
                        self.kinds.add("contained")
        return out


# ------------------------------------------------------------------------------------ the gather view
def _gather(ctx: Ctx) -> tuple[FuncInfo, set[str]]:
    """
    (view of TokenTree.gather_token, names under which that code re-enters itself).  Every private helper is inlined, so
    the view shows the checks, the append and the wake-up in one body; the recursive re-offer stays a call.
    """
    gt = ctx.repo.method("TokenTree", "gather_token", TR)
    names = {"gather_token"}
    body = [s for s in gt.node.body if not _is_doc(s)]
    # gather_token reduced to `return self._impl(token)`: the implementation re-enters itself under its own name
    if len(body) == 1 and isinstance(body[0], ast.Return) and isinstance(body[0].value, ast.Call) and isinstance(body[0].value.func, ast.Attribute) and \
            chain(body[0].value.func.value) == "self" and _is_private(body[0].value.func.attr) and [norm(a) for a in body[0].value.args] == gt.params()[1:] and not body[0].value.keywords:
        names.add(body[0].value.func.attr)
    view = _view(ctx, gt)
    return view, names


def _undecided_helpers(ctx: Ctx, view: FuncInfo, tables: tuple[str, ...], entry: set[str], tok: str | None = None, report: bool = False) -> None:
    """A private helper that stayed a call in the view and touches the tables / re-enters: the view does not show everything."""
    for c in calls(view):
        f = c.func
        if isinstance(f, ast.Attribute) and isinstance(f.value, ast.Name) and view.cls is not None and _is_private(f.attr) and f.attr not in entry:
            h = view.cls.lookup(f.attr)
            if h is None or (f.value.id not in ("self", "cls") and ctx.repo.resolve_class_expr(view.module, f.value) is None):
                continue
            reach = {h.name: h, **_private_closure(h)}
            for g in reach.values():
                if any(_writes(g, t) for t in tables) or any(call_name(x) in entry for x in calls(g)):
                    handed = [a for a in [*c.args, *[k.value for k in c.keywords]]]
                    if tok is not None and handed and all(_x(view, a) != tok for a in handed) and any(_writes(g2, "self.elements") for g2 in reach.values()):
                        # part of the append machinery is re-entered with something that is not the checked token
                        if report:
                            ctx.check(False, "verify-before-keep", view, c, "only the verified token is handed to the appending helpers",
                                      f"`{norm(c)[:60]}` appends a token that did not pass gather_token's checks (signature, parent, duplicate)")
                        break
                    why = next((w for n, w in getattr(view, "opaque", []) if n == f.attr), "not inlinable")
                    raise AnalysisError(f"undecided: {view.qualname} hands its work to `{norm(c)[:60]}` which could not be inlined exactly ({why})")


def _absent_by_keyerror(fi: FuncInfo, site: ast.AST, key: str) -> bool:
    """site lies in `except KeyError:` of a try whose body is nothing but the lookup `self.elements[key]`: the key is not contained"""
    prev = site
    for a in ancestors(site):
        if isinstance(a, ast.ExceptHandler):
            t = parent(a)
            names = [chain(x) for x in (a.type.elts if isinstance(a.type, ast.Tuple) else [a.type])] if a.type is not None else []
            if isinstance(t, ast.Try) and names == ["KeyError"] and len(t.body) == 1 and isinstance(t.body[0], (ast.Assign, ast.Expr, ast.AnnAssign)):
                v = strip_cast(t.body[0].value) if t.body[0].value is not None else None
                plain = not isinstance(t.body[0], ast.Assign) or all(isinstance(x, ast.Name) for x in t.body[0].targets)
                if plain and isinstance(v, ast.Subscript) and chain(v.value) == "self.elements" and _x(fi, v.slice) == key:
                    return True
            return False
        if a is fi.node:
            return False
        prev = a
    return False


# ------------------------------------------------------------------------------------ rules
def rule_verify_before_keep(ctx: Ctx) -> None:
    repo = ctx.repo
    fi, entry = _gather(ctx)
    cfg = ctx.cfg(fi)
    tok = fi.params()[1] if len(fi.params()) > 1 else None
    ctx.anchor(tok, "token parameter of TokenTree.gather_token")
    _undecided_helpers(ctx, fi, ("self.elements", "self.unchained"), entry, tok, report=True)
    ctx.check(not local_defs(fi, tok), "verify-before-keep", fi, fi.node, "token parameter not rebound", "gather_token rebinds the offered token")
    keep = [(s, k, v) for s, k, v, kind in _writes(fi, "self.unchained") if kind in ("set", "bulk", "rebind", "add")]
    unkeyed = [s for s, k, v, kind in _writes(fi, "self.unchained") if kind == "add" and not (isinstance(s, ast.Call) and s.func.attr == "add")]
    app = [(s, k, v, kind) for s, k, v, kind in _writes(fi, "self.elements")]
    ctx.floor("verify-before-keep", len(keep) + len(app), 2)
    for s, k, v in keep:
        fs = _facts(fi, cfg, s)
        ok = any(f.op == "truthy" and f.pos and _is_verify_call(fi, f.left, tok) for f in fs)
        ctx.check(ok and _x(fi, k) == tok, "verify-before-keep", fi, s, f"`{norm(s)[:50]}` dominated by token.verify(self.public_key)",
                  "a token that is not signed by the tree's key can be kept (waiting area or tree)", [str(f) for f in fs])
        # a waiting token occupies ONE slot of the bounded area however often it is offered: a store keyed by the token does that by
        # construction, an un-keyed insertion (list.append / insert / deque.append) only if the token is known not to wait yet
        once = not any(s is u for u in unkeyed) or any(_membership(fi, f, "self.unchained") == (tok, False) for f in fs)
        ctx.check(once, "verify-before-keep", fi, s, f"`{norm(s)[:50]}`: a re-offered waiting token is kept once",
                  f"`{norm(s)[:50]}` keeps a waiting token once more every time it is offered again (the waiting area is no longer keyed by the token): "
                  "re-deliveries of one dangling token use up the bounded waiting area and push other, distinct waiting tokens out although fewer than "
                  "unchained_max_size distinct tokens wait - the evicted tokens are never chained, so the tree depends on arrival order", [str(f) for f in fs])
    pk = _ParentKnown(ctx, fi, tok)
    edge = pk.edge_pred(cfg)
    for s, k, v, kind in app:
        fs = _facts(fi, cfg, s)
        ok = any(f.op == "truthy" and f.pos and _is_verify_call(fi, f.left, tok) for f in fs)
        own = kind == "set" and _x(fi, v) == tok and _x(fi, k) == f"{tok}.get_hash()"
        ctx.check(ok and own, "verify-before-keep", fi, s, f"`{norm(s)[:50]}` dominated by token.verify(self.public_key)",
                  "a token that is not signed by the tree's key can be kept (waiting area or tree)" if own else
                  "something other than the verified token under its own hash is written into the tree", [str(f) for f in fs])
        dominated = all(cfg.must_pass_edges(n, edge) for n in cfg.nodes_for(s))
        if not dominated and any(len(v2) == 2 for v2 in pk.opaque.values()):
            raise AnalysisError("undecided: gather_token tests the token with a helper whose meaning could not be derived: " +
                                ", ".join(k2 for k2, v2 in pk.opaque.items() if len(v2) == 2))
        ctx.check(dominated and pk.kinds == {"genesis", "contained"}, "verify-before-keep", fi, s,
                  "token appended only if its parent is the genesis hash or a contained token",
                  "a dangling token (parent neither genesis nor contained) can be appended to the tree")
        fresh = any(_membership(fi, f) == (f"{tok}.get_hash()", False) for f in fs) or _absent_by_keyerror(fi, s, f"{tok}.get_hash()")
        if not fresh and any(isinstance(a, ast.ExceptHandler) or (isinstance(a, ast.Try) and any(_inside(s, o) for o in a.orelse)) for a in ancestors(s)):
            raise AnalysisError("undecided: gather_token decides `already contained` through an exception handler")
        if not fresh and any(isinstance(t, ast.Try) and any("KeyError" in norm(h.type) for h in t.handlers if h.type is not None) and
                             any(isinstance(x, ast.Subscript) and chain(x.value) == "self.elements" and _x(fi, x.slice) == f"{tok}.get_hash()" for b in t.body for x in ast.walk(b))
                             for t in ast.walk(fi.node)):
            raise AnalysisError("undecided: gather_token decides `already contained` by catching the KeyError of a lookup among other statements")
        if not fresh and any(isinstance(c.func, ast.Attribute) and c.func.attr == "get" and len(c.args) == 2 and not _is_none(c.args[1]) and not c.keywords
                             and chain(_expand(fi, c.func.value)) == "self.elements" and _x(fi, c.args[0]) == f"{tok}.get_hash()" for c in calls(fi)):
            raise AnalysisError("undecided: gather_token decides `already contained` by comparing a lookup with a default value that is not a recognised marker object")
        ctx.check(fresh, "verify-before-keep", fi, s, "token appended only if not contained yet", "a duplicate token replaces the contained one (and its content)",
                  [str(f) for f in fs])
    # bounded waiting area: the oldest waiting token is dropped only when the area exceeds its maximum size
    evict = [c for c in calls(fi, "self.unchained.popitem")]
    ok = bool(evict) and all(const_value(arg(c, 0, "last")) is False for c in evict)
    if not evict:
        # a sequence that is appended to at one end: the oldest entry sits at the other end
        at_front = [u for u in unkeyed if u.func.attr == "appendleft" or (u.func.attr == "insert" and const_value(u.args[0]) == 0)]
        at_back = [u for u in unkeyed if u.func.attr == "append"]
        oldest = ["next(iter(self.unchained))"] + (["0"] if unkeyed and len(at_back) == len(unkeyed) else ["-1"] if unkeyed and len(at_front) == len(unkeyed) else [])
        evict = [c for c in calls(fi, "self.unchained.pop") if (c.args and _x(fi, arg(c, 0)) in oldest) or (not c.args and "-1" in oldest)] + \
                [s for s, t in stores(fi, "self.unchained[]") if isinstance(s, ast.Delete) and _x(fi, t.slice) in oldest] + \
                ([c for c in calls(fi, "self.unchained.popleft")] if "0" in oldest else [])
        ok = bool(evict)
    for c in evict:
        exceeded = False
        for f in _facts(fi, cfg, c):
            if f.op == "lt":
                lt, rt = _x(fi, f.left), _x(fi, f.right)
                exceeded = exceeded or (f.pos and lt == "self.unchained_max_size" and rt == "len(self.unchained)") or \
                    (not f.pos and lt == "len(self.unchained)" and rt in ("self.unchained_max_size + 1", "1 + self.unchained_max_size"))
            if f.op == "lt" and not f.pos and _x(fi, f.left) == "len(self.unchained)" and _x(fi, f.right) == "self.unchained_max_size":
                # `make room first`: sound only if the token is known not to wait yet (else a duplicate evicts an innocent token) and is then inserted
                new_here = any(_membership(fi, f2_, "self.unchained") == (tok, False) for f2_ in _facts(fi, cfg, c))
                knodes = [x for s_, k_, v_ in keep for x in cfg.nodes_for(s_)]
                exceeded = exceeded or (new_here and bool(knodes) and all(cfg.always_followed_by(x, knodes) for x in cfg.nodes_for(c)))
        ok = ok and exceeded
    ctx.check(ok, "verify-before-keep", fi, fi.node, "waiting area bounded by unchained_max_size (oldest dropped)", "the waiting area for orphan tokens is unbounded")
    # content attach on duplicates goes through receive_content
    tkc = repo.cls("Token", TK)
    troots: dict[str, set[str]] = {}
    for name, f in tkc.methods.items():
        if not _is_private(name):
            for p in _private_closure(f):
                troots.setdefault(p, set()).add(name)
    for m, f2, a in repo.attribute_uses("content"):
        if isinstance(a.ctx, ast.Store) and f2 is not None and f2.module.relpath.startswith("ipv8/attestation/tokentree/"):
            inner = f2.cls is tkc and _is_private(f2.name) and bool(troots.get(f2.name)) and troots[f2.name] <= {"__init__", "receive_content"} and chain(a.value) == "self"
            ctx.check(f2.qualname in ("Token.__init__", "Token.receive_content") or inner, "content-binding", f2, enclosing_stmt(a),
                      f"content assigned in {f2.qualname}", "token content is assigned outside __init__/receive_content (hash check bypassed)")


def _prev_pointer_ok(f2: FuncInfo, cfg, site: ast.AST, stored: ast.AST, made: ast.Call) -> bool:
    """The previous-pointer of a token created by add/add_by_hash: the genesis hash without `after`, else after.get_hash()."""
    after = f2.params()[2] if len(f2.params()) > 2 else "after"
    values = {"self.genesis_hash", f"{after}.get_hash()"}
    # the Token(...) call as written (its first argument may be a local assigned on several paths)
    call = strip_cast(stored)
    for _ in range(4):
        if isinstance(call, ast.Name):
            call = strip_cast(_def_value(f2, call) or ast.Constant(None))
    raw = arg(call, 0, "previous_token_hash") if isinstance(call, ast.Call) else None
    if raw is None:
        return False
    if isinstance(strip_cast(raw), ast.Name) and _def_value(f2, strip_cast(raw)) is None:
        # assigned on several paths (`p = genesis` / `if after: p = after.get_hash()`): every reaching value must be one of the two
        ds = local_defs(f2, strip_cast(raw).id)
        return bool(ds) and all(v is not None and i is None and _x(f2, v) in values for s, v, i in ds) and \
            {_x(f2, v) for s, v, i in ds} == values
    e = _expand(f2, raw)
    none_tests = {f"not {after}": True, after: False, f"{after} is None": True, f"{after} is not None": False,
                  f"None is {after}": True, f"None is not {after}": False}
    if isinstance(e, ast.IfExp):
        none_when_true = none_tests.get(norm(e.test))
        if none_when_true is None:
            return False
        g, a = (e.body, e.orelse) if none_when_true else (e.orelse, e.body)
        return norm(g) == "self.genesis_hash" and norm(a) == f"{after}.get_hash()"
    # one Token(...) per branch: the branch condition decides which pointer is right
    without_after = None
    for f in _facts(f2, cfg, site):
        if f.op == "is" and {norm(f.left), norm(f.right)} == {after, "None"}:
            without_after = f.pos
        elif f.op == "truthy" and norm(f.left) == after:
            without_after = not f.pos
    if without_after is None:
        return False
    return norm(e) == ("self.genesis_hash" if without_after else f"{after}.get_hash()")


def _scans(fi: FuncInfo) -> list:
    """loops / comprehension generators that traverse the whole waiting area"""
    return [n for n in ast.walk(fi.node) if isinstance(n, (ast.For, ast.comprehension)) and chain(_unwrap_iter(fi, n.iter)) in ("self.unchained", "self.unchained.items()")]


def rule_writers(ctx: Ctx) -> None:
    repo = ctx.repo
    tt = repo.cls("TokenTree", TR)
    allowed_entries = {"add", "add_by_hash", "gather_token"}
    # which entry points (public / special methods) reach which private method
    roots: dict[str, set[str]] = {}
    for name, f in tt.methods.items():
        if not _is_private(name):
            for p in _private_closure(f):
                roots.setdefault(p, set()).add(name)
    pm_roots: dict[str, set[str]] = {}
    pmc = repo.try_cls("PseudonymManager", "ipv8/attestation/identity/manager.py")
    for name, f in (pmc.methods.items() if pmc is not None else ()):
        if not _is_private(name):
            for p in _private_closure(f):
                pm_roots.setdefault(p, set()).add(name)
    n = 0
    for m in repo.modules.values():
        if not m.relpath.startswith("ipv8/attestation/"):
            continue
        for f in m.all_functions:
            for node in walk_no_nested(f.node):
                if isinstance(node, (ast.FunctionDef, ast.AsyncFunctionDef, ast.ClassDef, ast.Lambda)) and node is not f.node:
                    continue
                sites = []
                if isinstance(node, ast.Subscript) and isinstance(node.ctx, (ast.Store, ast.Del)) and (chain(node.value) or "").endswith("elements"):
                    sites.append((enclosing_stmt(node), "del" if isinstance(node.ctx, ast.Del) else "set"))
                elif isinstance(node, ast.Call) and isinstance(node.func, ast.Attribute) and (chain(node.func.value) or "").endswith(".elements"):
                    if node.func.attr in ("pop", "clear", "popitem", "__delitem__"):
                        sites.append((node, "del"))
                    elif node.func.attr in ("update", "setdefault", "__setitem__"):
                        sites.append((node, "set"))
                elif isinstance(node, ast.Attribute) and node.attr == "elements" and isinstance(node.ctx, (ast.Store, ast.Del)) and \
                        (f.cls is tt or chain(node.value) in ("self.tree", "tree") or (chain(node.value) or "").endswith(".tree")):
                    st = enclosing_stmt(node)
                    if not (f.cls is tt and f.name == "__init__" and isinstance(st, (ast.Assign, ast.AnnAssign)) and isinstance(st.value, ast.Dict) and not st.value.keys):
                        sites.append((st, "set" if isinstance(st, ast.AugAssign) else "rebind"))
                for site, kind in sites:
                    n += 1
                    q = f.qualname
                    # inside TokenTree: add / add_by_hash (the token they created with the own key), gather_token (the checked
                    # entry) and private helpers that only these three reach; elsewhere: the database reload
                    in_tree = f.cls is tt and kind == "set" and (f.name in allowed_entries or (_is_private(f.name) and roots.get(f.name, set()) and roots[f.name] <= allowed_entries))
                    reload_ = f.cls is not None and f.cls.name == "PseudonymManager" and kind in ("set", "rebind") and \
                        (f.name == "__init__" or (_is_private(f.name) and pm_roots.get(f.name) == {"__init__"}))
                    ok = in_tree or reload_
                    ctx.check(ok, "writers", f, site, f"elements written in {q}",
                              "tokens are removed from / bulk-written into the tree" if kind != "set" else "the token tree's element table is written outside _append / the database reload")
    ctx.floor("writers", n, 2)
    # private helpers that (transitively) write the table are reachable only through the three entry points of their own class
    writers = {name: f for name, f in tt.methods.items() if _is_private(name) and
               any(_writes(g, "self.elements") for g in [f, *_private_closure(f).values()])}
    att = [m for m in repo.modules.values() if m.relpath.startswith("ipv8/attestation/")]
    att_attrs = [(m, n) for m in att for n in ast.walk(m.tree) if isinstance(n, ast.Attribute) and n.attr in writers]
    for name, f in writers.items():
        for m, c in [(m, parent(n)) for m, n in att_attrs if n.attr == name and isinstance(parent(n), ast.Call) and parent(n).func is n]:
            fi = repo.function_of(c)
            if fi is None:
                continue
            ok = fi.cls is tt and (fi.name in allowed_entries or (_is_private(fi.name) and roots.get(fi.name, set()) <= allowed_entries))
            ctx.check(ok, "writers", fi, c, f"{name} called from {fi.qualname}", f"{name} is called around the verification in gather_token")
        for m, a in [(m, n) for m, n in att_attrs if n.attr == name]:
            fi = repo.function_of(a)
            if not (fi is not None and fi.cls is tt) and not (isinstance(parent(a), ast.Call) and parent(a).func is a):
                ctx.check(False, "writers", fi or m.relpath, enclosing_stmt(a), f"{name} referenced outside TokenTree", f"{name} escapes the token tree (unchecked writer of the element table)")
    for name in ("add", "add_by_hash"):
        f2 = _view(ctx, repo.method("TokenTree", name, TR))
        _undecided_helpers(ctx, f2, ("self.elements",), {"gather_token"})
        toks = calls(f2, "Token")
        sites = _writes(f2, "self.elements")
        fcfg = ctx.cfg(f2)
        ok = bool(toks) and bool(sites)
        for s_, k, v, kind in sites:
            # the stored token: one Token(...) call, or one per branch (`if after is None: t = Token(genesis..) else: t = Token(after..)`)
            cands = [(s_, v)]
            if isinstance(strip_cast(v) if v is not None else None, ast.Name) and _def_value(f2, strip_cast(v)) is None:
                r = _reaching(f2, strip_cast(v))
                cands = [(st, val) for st, val, idx in r] if r and all(val is not None and idx is None for st, val, idx in r) else []
                if not (isinstance(strip_cast(k), ast.Call) and isinstance(strip_cast(k).func, ast.Attribute) and strip_cast(k).func.attr == "get_hash"
                        and norm(strip_cast(k).func.value) == norm(strip_cast(v)) and not strip_cast(k).args):
                    cands = []
            good = kind == "set" and bool(cands)
            for at, val in cands:
                made = _expand(f2, val) if val is not None else None
                good = good and isinstance(made, ast.Call) and chain(made.func) == "Token" and (len(cands) > 1 or _x(f2, k) == norm(made) + ".get_hash()") and \
                    _x(f2, arg(made, 3, "private_key")) == "self.private_key" and _prev_pointer_ok(f2, fcfg, at, val, made)
            ok = ok and good
        ctx.check(ok, "writers", f2, f2.node, f"{name} signs with the tree's own key and chains to genesis or the given token", f"{name} creates tokens not chained/signed by the tree's key")
    # an append by gather_token is always followed by the wake-up of the waiting children
    g, entry = _gather(ctx)
    gcfg = ctx.cfg(g)
    scan_nodes = [x for s in _scans(g) for x in gcfg.nodes_for(s.iter if isinstance(s, ast.For) else s)]
    for s, k, v, kind in _writes(g, "self.elements"):
        ok = all(gcfg.always_followed_by(x, scan_nodes) for x in gcfg.nodes_for(s)) if scan_nodes else False
        ctx.check(ok, "writers", g, s, "an append in gather_token is followed by the wake-up of the waiting children",
                  "gather_token appends a token around the wake-up: children that arrived before it stay in the waiting area")
    # database reload: tokens are inserted into the database only after a successful gather_token
    pm = repo.cls("PseudonymManager", "ipv8/attestation/identity/manager.py")
    n_ins = 0
    pviews = {name: _view(ctx, f0) for name, f0 in pm.methods.items()}
    absorbed = {h.name for name, v_ in pviews.items() for h in getattr(v_, "inlined", []) if h.cls is pm}
    left = {call_name(c) for v_ in pviews.values() for c in calls(v_) if isinstance(c.func, ast.Attribute) and chain(c.func.value) == "self"}
    for name, f2 in pviews.items():
        if _is_private(name) and name in absorbed and name not in left:
            continue                    # a private helper that is part of its callers' views
        cfg = ctx.cfg(f2)
        for c in calls(f2):
            if call_name(c) == "insert_token":
                n_ins += 1
                fs = _facts(f2, cfg, c)
                tokx = _x(f2, arg(c, 1, "token"))

                def _gathered(e: ast.AST) -> bool:
                    e = _expand(f2, e)
                    return isinstance(e, ast.Call) and call_name(e) == "gather_token" and _x(f2, arg(e, 0, "token")) == tokx
                gathered = any((f.op == "is" and not f.pos and _is_none(f.right) and _gathered(f.left)) or
                               (f.op == "truthy" and f.pos and _gathered(f.left)) for f in fs)
                if not gathered:
                    # EAFP spelling: an attribute of gather_token's result was read (None has none of them) and that statement completed normally
                    deref = [n for n in cfg.nodes if n.kind in ("stmt", "cond") and n.ast is not None and not isinstance(n.ast, (ast.For, ast.While, ast.With, ast.Try, ast.If))
                             and any(isinstance(x, ast.Attribute) and isinstance(x.ctx, ast.Load) and not x.attr.startswith("__") and _gathered(x.value) and not expr_context_facts(x)
                                     for x in walk_no_nested(n.ast))]
                    gathered = bool(deref) and all(cfg.must_complete(n, deref) for n in cfg.nodes_for(c))
                made = _expand(f2, arg(c, 1, "token"))
                own = isinstance(made, ast.Call) and call_name(made) in ("add", "add_by_hash")
                ctx.check(gathered or own, "writers", f2, c, "token written to the database only after gather_token accepted it (or it was created with the own key)",
                          "a token is persisted (and later reloaded into the tree unverified) without having been accepted by gather_token", [str(f) for f in fs])
    ctx.floor("writers.insert_token", n_ins, 1)
    g0 = repo.method("TokenTree", "__init__", TR)
    gi = _view(ctx, g0)
    gh = [s for s, t in stores(gi, "self.genesis_hash")]
    ok = bool(gh) and all(isinstance(s, (ast.Assign, ast.AnnAssign)) and norm(_hashed(gi, s.value)) == "self.public_key.key_to_bin()" for s in gh)
    ctx.check(ok, "writers", gi, gi.node, "genesis hash = sha3_256(public key)", "the genesis pointer is not the hash of the tree's key")
    # the key that roots the tree (genesis hash) and checks every signature is the PUBLIC PART of whatever key object was handed in
    keyed = 0
    for st, t in stores(gi, "self.public_key"):
        v = None
        if isinstance(st, ast.Assign) and any(x is t for x in st.targets):
            v = st.value
        elif isinstance(st, ast.AnnAssign) and st.target is t:
            v = st.value
        elif isinstance(st, ast.Assign) and len(st.targets) == 1 and isinstance(st.targets[0], (ast.Tuple, ast.List)) and isinstance(st.value, (ast.Tuple, ast.List)) and \
                len(st.targets[0].elts) == len(st.value.elts) and not any(isinstance(x, ast.Starred) for x in [*st.targets[0].elts, *st.value.elts]):
            v = next((b for a, b in zip(st.targets[0].elts, st.value.elts) if a is t), None)
        r = _public_part(gi, v) if v is not None else None
        if r is None:
            raise AnalysisError(f"undecided: TokenTree.__init__ sets the tree's key by `{norm(st)[:60]}`; whether that is the public part of the given key is not derived")
        keyed += 1
        ctx.check(r, "writers", gi, st, "the tree's key is the public part (.pub()) of the key object it was given",
                  f"TokenTree.__init__ keeps the key object it was given as the tree's key (`{norm(st)[:60]}`) instead of its public part: a private key IS a "
                  "public key (subclass), so a view made from a key that still carries its secret part derives genesis_hash from the secret key's "
                  "serialisation - the view is rooted at another genesis than the owner's chain and every signed, connected token of the owner is parked as dangling")
    ctx.floor("writers.tree-key", keyed, 1)


def _public_part(fi: FuncInfo, e: ast.AST | None, depth: int = 6) -> bool | None:
    """True: e is `<key>.pub()` on every path; False: on some path e is a key object as it was handed in (a parameter / self.private_key);
    None: not derived"""
    if e is None or depth <= 0:
        return None
    e = strip_cast(e)
    if isinstance(e, ast.NamedExpr):
        return _public_part(fi, e.value, depth - 1)
    if isinstance(e, ast.Call):
        if isinstance(e.func, ast.Attribute) and e.func.attr == "pub" and not e.args and not e.keywords:
            return True
        return None
    if isinstance(e, (ast.IfExp, ast.BoolOp)):
        rs = [_public_part(fi, x, depth - 1) for x in ([e.body, e.orelse] if isinstance(e, ast.IfExp) else e.values)]
        return False if any(r is False for r in rs) else None if any(r is None for r in rs) else True
    if isinstance(e, ast.Attribute):
        return False if chain(e) == "self.private_key" else None
    if isinstance(e, ast.Name):
        if is_param(fi, e.id) and not local_defs(fi, e.id):
            return False
        r = _reaching(fi, e)
        if not r:
            return None
        out: list = []
        for st, v, k in r:
            if v is not None and k is not None:
                v = strip_cast(v)
                v = v.elts[k] if isinstance(v, (ast.Tuple, ast.List)) and k < len(v.elts) and not any(isinstance(x, ast.Starred) for x in v.elts) else None
            out.append(_public_part(fi, v, depth - 1))
        return False if any(x is False for x in out) else None if any(x is None for x in out) else True
    return None


def _unwrap_iter(fi: FuncInfo, e: ast.AST) -> ast.AST:
    """Strip list(...) / tuple(...) / sorted(...) / .keys() / .copy() around an iterated collection."""
    e = _expand(fi, e)
    while True:
        if isinstance(e, ast.Call) and isinstance(e.func, ast.Name) and e.func.id in _WRAPPERS and len(e.args) == 1:
            e = e.args[0]
        elif isinstance(e, ast.Call) and isinstance(e.func, ast.Attribute) and e.func.attr in ("keys", "copy") and not e.args:
            e = e.func.value
        else:
            return e


def _loop_of(node: ast.AST, stop: ast.AST):
    """Innermost for-loop / comprehension generator whose body evaluates node: (loop node, generator or None)."""
    prev = node
    for a in ancestors(node):
        if a is stop:
            return None, None
        if isinstance(a, (ast.For, ast.AsyncFor)) and prev is not a.iter and prev is not a.target:
            return a, None
        if isinstance(a, _COMPS) and not (a.generators and prev is a.generators[0] and _inside(node, a.generators[0].iter)):
            return a, a.generators[-1]
        prev = a
    return None, None


def _inside(node: ast.AST, root: ast.AST) -> bool:
    return node is root or any(a is root for a in ancestors(node))


def _names_loop_var(fi: FuncInfo, cfg, loop, target: ast.AST, v: ast.AST | None, c: ast.AST) -> bool:
    """`v` is a second name of the loop variable in the iteration that evaluates `c`: its only definition is `v = <target>` inside the loop
    and every path from the loop head to `c` passes it (so it never holds the element of an earlier iteration)."""
    v = strip_cast(v) if v is not None else None
    if loop is None or not isinstance(v, ast.Name) or not isinstance(target, ast.Name) or is_param(fi, v.id):
        return False
    ds = local_defs(fi, v.id)
    if len(ds) != 1 or ds[0][1] is None or ds[0][2] is not None or not isinstance(ds[0][0], (ast.Assign, ast.AnnAssign)) or norm(strip_cast(ds[0][1])) != target.id or not _inside(ds[0][0], loop):
        return False
    if len(local_defs(fi, target.id)) != 1:
        return False
    dn = cfg.nodes_for(ds[0][0])
    cn = cfg.nodes_for(c)
    for ln in cfg.nodes_for(loop):
        pre = cfg.reach([w for w, lab in ln.succ if lab is True], cut_nodes=dn, follow_exc=False)
        if any(x in pre for x in cn):
            return False
    return bool(dn) and bool(cn)


def rule_wake_all(ctx: Ctx) -> None:
    fi, entry = _gather(ctx)
    cfg = ctx.cfg(fi)
    tok = fi.params()[1]
    _undecided_helpers(ctx, fi, ("self.elements", "self.unchained"), entry, tok)
    # the scan of the waiting area must not stop at the first match (also looked for in helpers that could not be inlined)
    scans = _scans(fi)
    ctx.check(bool(scans), "wake-all", fi, fi.node, "the waiting area is scanned for children of the appended token", "waiting children are never re-offered")
    for s in scans:
        if isinstance(s, ast.For):
            early = [x for x in ast.walk(s) if isinstance(x, (ast.Break, ast.Return))]
            ctx.check(not early, "wake-all", fi, s, "scan of the waiting area examines every waiting token",
                      "only the first waiting child of the appended token is woken: with a fork arriving before its parent the tree depends on arrival order")
    scan_vars = set()
    for s in scans:
        t = s.target
        if chain(_unwrap_iter(fi, s.iter)) == "self.unchained.items()" and isinstance(t, ast.Tuple) and t.elts:
            t = t.elts[0]
        scan_vars.add(norm(t))
    cond_ok = False
    for n in ast.walk(fi.node):
        if isinstance(n, ast.Compare) and len(n.ops) == 1 and isinstance(n.ops[0], (ast.Eq, ast.NotEq)):
            sides = {_x(fi, n.left), _x(fi, n.comparators[0])}
            cond_ok = cond_ok or any(sides == {f"{v}.previous_token_hash", f"{tok}.get_hash()"} for v in scan_vars)
    # ... and with the right polarity: what a scan hands on (re-offers / collects) are the tokens whose parent IS the appended token
    def _is_child_fact(f: Fact, var: str) -> bool:
        return f.op == "eq" and f.pos and {_x(fi, f.left), _x(fi, f.right)} == {f"{var}.previous_token_hash", f"{tok}.get_hash()"}

    def _selecting(sc) -> bool | None:
        t = sc.target
        if chain(_unwrap_iter(fi, sc.iter)) == "self.unchained.items()" and isinstance(t, ast.Tuple) and t.elts:
            t = t.elts[0]
        var = norm(t)
        if isinstance(sc, ast.comprehension):
            return any(_is_child_fact(f, var) for cnd in sc.ifs for f in _split(cnd, True))
        uses = [c for c in calls(sc) if isinstance(c.func, ast.Attribute) and any(norm(a) == var for a in c.args) and
                ((chain(c.func.value) == "self" and c.func.attr in entry) or c.func.attr in ("append", "add", "appendleft"))]
        if not uses:
            return None
        return all(any(_is_child_fact(f, var) for f in _facts(fi, cfg, c)) for c in uses)
    sel = [r for r in (_selecting(sc) for sc in scans) if r is not None]
    ctx.check(cond_ok and (not scans or (bool(sel) and all(sel))), "wake-all", fi, fi.node, "children selected by previous_token_hash == appended.get_hash()",
              "children are not matched by parent hash" if not cond_ok else
              "the scan of the waiting area hands on the tokens whose parent is NOT the appended token: its waiting children are never woken")
    # every selected token is re-offered through gather_token (full re-check)
    gt = [c for c in calls(fi) if isinstance(c.func, ast.Attribute) and chain(c.func.value) == "self" and c.func.attr in entry]
    ok = bool(gt)
    reoffers = []
    for c in gt:
        v = arg(c, 0, "token")
        if len(c.args) + len(c.keywords) != 1:
            ok = False                      # nothing but the token may be passed (no `already verified` shortcuts)
        loop, gen = _loop_of(c, fi.node)
        target = gen.target if gen is not None else loop.target if loop is not None else None
        if target is None or (norm(target) != norm(v) and not _names_loop_var(fi, cfg, loop if gen is None else None, target, v, c)):
            if any(isinstance(a, ast.While) for a in ancestors(c)):
                raise AnalysisError("undecided: waiting children are re-offered from a while-loop in gather_token's wake-up")
            ok = False                      # a single variable: at most one child is re-offered
            continue
        it = gen.iter if gen is not None else loop.iter
        ok = ok and _derives_from_scan(fi, it, loop if gen is None else gen, scans)
        reoffers.append((c, loop if gen is None else None, norm(target), it))
    ctx.check(ok, "wake-all", fi, fi.node, "every waiting child is re-offered through gather_token", "at most one waiting child is re-offered")
    sites = _writes(fi, "self.elements")
    first = bool(sites) and all(kind == "set" and _x(fi, v) == tok and _x(fi, k) == f"{tok}.get_hash()" for s, k, v, kind in sites)
    app_nodes = [n for s, k, v, kind in sites for n in cfg.nodes_for(s)]
    before = all(cfg.must_complete(n, app_nodes) for c in gt for n in cfg.nodes_for(c))
    ctx.check(first and before, "wake-all", fi, fi.node, "the token itself is appended first", "the token is not appended before its children are woken")
    # a woken token leaves the waiting area whatever the outcome of its re-offer: stale entries would use up the bound
    for c, loop, var, it in reoffers:
        ctx.check(_leaves_waiting_area(ctx, fi, cfg, c, loop, var, it), "wake-all", fi, enclosing_stmt(c), "a re-offered token is removed from the waiting area on every path",
                  "a woken token can stay behind in the waiting area (stale entry): it keeps occupying the bounded area and get_missing() keeps reporting it, "
                  "so really waiting tokens are evicted although fewer than unchained_max_size tokens wait - the tree depends on arrival order")


def _removals(fi: FuncInfo, root: ast.AST, var: str) -> list[ast.AST]:
    """sites below root that remove `var` from self.unchained"""
    out: list[ast.AST] = []
    for s, k, v, kind in _writes(root, "self.unchained"):
        if kind == "del" and k is not None and _x(fi, k) == var:
            out.append(s)
    return out


def _leaves_waiting_area(ctx: Ctx, fi: FuncInfo, cfg, c: ast.Call, loop, var: str, it: ast.AST) -> bool:
    if loop is not None:
        rem = [n for s in _removals(fi, loop, var) for n in cfg.nodes_for(s)]

        def absent(u, v, lab) -> bool:
            if u.kind != "cond" or lab not in (True, False):
                return False
            m = _membership(fi, fact_of(u.ast, lab), "self.unchained")
            return m is not None and m == (var, False)
        if rem or any(absent(u, v, lab) for u in cfg.nodes for v, lab in u.succ):
            cn = cfg.nodes_for(c)
            for ln in cfg.nodes_for(loop):
                # an iteration that evaluates the re-offer without having removed the token and completes without removing it
                pre = cfg.reach([v for v, lab in ln.succ if lab is True], cut_nodes=rem, cut_edge=absent, follow_exc=False)
                post = cfg.reach([v for x in cn for v, lab in x.succ if lab != "exc"], cut_nodes=rem, cut_edge=absent, follow_exc=False)
                if any(x in pre for x in cn) and (ln in post or cfg.exit in post):
                    return False
            return True
    # removed in a loop of its own over the same selection
    want = _x(fi, it)
    for n in ast.walk(fi.node):
        if isinstance(n, ast.For) and n is not loop and _x(fi, n.iter) == want and _removals(fi, n, norm(n.target)):
            rem = [x for s in _removals(fi, n, norm(n.target)) for x in cfg.nodes_for(s)]
            ok = True
            for ln in cfg.nodes_for(n):
                r = cfg.reach([v for v, lab in ln.succ if lab is True], cut_nodes=rem, follow_exc=False)
                ok = ok and ln not in r and cfg.exit not in r
            if ok and not any(isinstance(x, (ast.Break, ast.Return)) for x in ast.walk(n)):
                return True
    other = [s for s, k, v, kind in _writes(fi, "self.unchained") if kind in ("bulk", "rebind") or (kind == "del" and k is not None and _x(fi, k) not in (var, "next(iter(self.unchained))"))]
    if other:
        raise AnalysisError(f"undecided: the waiting area is rewritten by `{norm(other[0])[:60]}`; cannot tell whether woken tokens leave it")
    return False


def _derives_from_scan(fi: FuncInfo, it: ast.AST, loop: ast.AST, scans: list) -> bool:
    """The collection iterated by the re-offering loop is the result of a complete scan of the waiting area."""
    if any(loop is s for s in scans):
        return True
    e = strip_cast(it)
    while isinstance(e, ast.Call) and isinstance(e.func, ast.Name) and e.func.id in _WRAPPERS and len(e.args) == 1:
        e = e.args[0]
    if isinstance(e, _COMPS):
        return any(g is s for g in e.generators[:1] for s in scans)
    if not isinstance(e, ast.Name):
        return False
    for stmt, val, idx in local_defs(fi, e.id):
        v = strip_cast(val) if val is not None else None
        while isinstance(v, ast.Call) and isinstance(v.func, ast.Name) and v.func.id in _WRAPPERS and len(v.args) == 1:
            v = v.args[0]
        if isinstance(v, _COMPS) and any(v.generators[0] is s for s in scans):
            return True
    for c in calls(fi):
        if isinstance(c.func, ast.Attribute) and c.func.attr in ("append", "add") and chain(c.func.value) == e.id and \
                any(a is s for a in ancestors(c) for s in scans if isinstance(s, ast.For)):
            return True
    return False


def _attr_stores(fi: FuncInfo, target: str) -> list[tuple[ast.stmt, ast.AST | None]]:
    """(statement, stored value or None when it is not a plain assignment) for every store into attribute `target`;
    `a.x, a.y = u, v` is read element-wise"""
    out: list = []
    for s, t in stores(fi, target):
        val = None
        if isinstance(s, ast.Assign):
            for tg in s.targets:
                if tg is t:
                    val = s.value
                elif isinstance(tg, (ast.Tuple, ast.List)) and isinstance(s.value, (ast.Tuple, ast.List)) and len(tg.elts) == len(s.value.elts) and \
                        not any(isinstance(x, ast.Starred) for x in [*tg.elts, *s.value.elts]):
                    val = next((v for e, v in zip(tg.elts, s.value.elts) if e is t), val)
        elif isinstance(s, ast.AnnAssign):
            val = s.value
        out.append((s, val))
    return out


def _never_both_missing(cfg, a_nodes: list, b_nodes: list) -> bool:
    """No normal path entry -> a -> exit that avoids every node of b."""
    pre = cfg.reach(cut_nodes=b_nodes)
    for a in a_nodes:
        if a in pre and not cfg.always_followed_by(a, b_nodes):
            return False
    return True


def _init_case(ctx: Ctx, init: FuncInfo, content_none: bool, hash_none: bool) -> tuple[bool, str]:
    """
    Token.__init__ specialised (by partial evaluation) to one None-ness case of (content, content_hash): may it complete
    with content attached although the stored content pointer is not the hash of that content?
    """
    cp, hp = "content", "content_hash"
    v = _view(ctx, init, assume_none=tuple(p for p, n in ((cp, content_none), (hp, hash_none)) if n),
              assume_set=tuple(p for p, n in ((cp, content_none), (hp, hash_none)) if not n))
    cfg = ctx.cfg(v)
    if cfg.exit not in cfg.reach(follow_exc=False):
        return True, "raises"
    hs = [(s, val) for s, val in _attr_stores(v, "self.content_hash") if val is not None]
    other = [s for s, val in _attr_stores(v, "self.content_hash") if val is None]
    derived = [s for s, val in hs if norm(_hashed(v, val)) == cp]
    given = [s for s, val in hs if _x(v, val) == hp]
    cs = _attr_stores(v, "self.content")
    attach = [(s, val) for s, val in cs if val is not None and not _is_none(_expand(v, val))]
    if other or any(val is None for s, val in cs):
        return False, "content / content_hash written in an unexpected way"
    if content_none:
        ok = not attach and bool(hs) and (hash_none or len(given) == len(hs))
        return ok, "no content: nothing attached, the given pointer is kept"
    ok = all(_x(v, val) == cp for s, val in attach) and len(derived) == len(hs) and \
        _never_both_missing(cfg, [n for s, val in attach for n in cfg.nodes_for(s)], [n for s in derived for n in cfg.nodes_for(s)]) and \
        (not attach or bool(derived))
    return ok, "content given: the pointer is derived from it"


def rule_content(ctx: Ctx) -> None:
    repo = ctx.repo
    rc = _view(ctx, repo.method("Token", "receive_content", TK))
    cfg = ctx.cfg(rc)
    c = rc.params()[1]
    ctx.check(not local_defs(rc, c), "content-binding", rc, rc.node, "content parameter not rebound", "receive_content rebinds the content it checks")
    for s, t in stores(rc, "self.content"):
        fs = _facts(rc, cfg, s)
        ok = False
        for f in fs:
            pair = (f.left, f.right) if f.op == "eq" and f.pos else None
            if f.op == "truthy" and f.pos:
                cd = _expand(rc, f.left)
                if isinstance(cd, ast.Call) and (chain(cd.func) or "").split(".")[-1] == "compare_digest" and len(cd.args) == 2 and not cd.keywords:
                    pair = (cd.args[0], cd.args[1])              # hmac.compare_digest(a, b): a == b in constant time
            if pair is not None:
                sides = [_expand(rc, x) for x in pair]
                if any(norm(_hashed(rc, x)) == c for x in pair) and any(norm(x) == "self.content_hash" for x in sides):
                    ok = True
        ctx.check(ok and _x(rc, getattr(s, "value", None)) == c, "content-binding", rc, s, "content attached only if sha3_256(content) == content_hash",
                  "content that does not hash to the token's content pointer can be attached", [str(f) for f in fs])
    init0 = repo.method("Token", "__init__", TK)
    init = _view(ctx, init0)
    ps = init.params()
    ctx.anchor("content" in ps and "content_hash" in ps, "parameters content / content_hash of Token.__init__")
    ok = not local_defs(init, "content")
    why = []
    for content_none in (False, True):
        for hash_none in (False, True):
            if content_none and hash_none:
                continue
            r, what = _init_case(ctx, init0, content_none, hash_none)
            ok = ok and r
            why.append(f"content {'is' if content_none else 'is not'} None, content_hash {'is' if hash_none else 'is not'} None: {what}{'' if r else ' - FAILS'}")
    ctx.check(ok, "content-binding", init, init.node, "content hash derived from the content when content is given", "Token.__init__ accepts content with an unrelated hash", why)
    gp = _view(ctx, repo.method("Token", "get_plaintext", TK))
    rets = [r for r in walk_no_nested(gp.node) if isinstance(r, ast.Return)]
    ok = bool(rets) and all(_concat(_expand(gp, r.value)) == "self.previous_token_hash + self.content_hash" for r in rets)
    ctx.check(ok, "content-binding", gp, gp.node, "signed plaintext = previous hash + content hash", "the signature does not cover both pointers")


def _cursor_of(fi: FuncInfo, k: ast.AST | None) -> str | None:
    """`cur` when k denotes `cur.previous_token_hash` (directly or through locals)"""
    e = k
    for _ in range(6):
        if e is None:
            return None
        e = strip_cast(e)
        if isinstance(e, ast.Attribute) and e.attr == "previous_token_hash" and isinstance(e.value, ast.Name):
            return e.value.id
        if isinstance(e, ast.Name):
            e = _def_value(fi, e)
            continue
        return None
    return None


def _walk_units(ctx: Ctx, f2: FuncInfo) -> list[FuncInfo]:
    """the view of f2 and the views of the private helpers it hands the walk to (those that could not be inlined)"""
    out: list[FuncInfo] = []
    seen: set[str] = set()
    todo = [f2]
    while todo:
        f = todo.pop()
        if f.name in seen:
            continue
        seen.add(f.name)
        v = _view(ctx, f)
        out.append(v)
        handed = set(_private_targets(v)) | {c.func.attr for c in calls(v) if isinstance(c.func, ast.Attribute) and chain(c.func.value) == "self"}
        for name in sorted(handed):
            h = f.cls.lookup(name) if f.cls is not None else None
            if h is not None and name not in seen:
                todo.append(h)                # e.g. verify() written as bool(self.get_root_path(..)): the walk is judged where it is
    return out


def _walk_unit(ctx: Ctx, v: FuncInfo) -> tuple[bool, bool] | None:
    """(every step verified, success only at the genesis hash) for one function that walks towards the root; None: no walk here"""
    cfg = ctx.cfg(v)
    recursive = any(isinstance(c.func, ast.Attribute) and chain(c.func.value) == "self" and c.func.attr == v.name for c in calls(v))
    steps: list[tuple[ast.AST, str | None]] = []
    for x in walk_no_nested(v.node):
        k = None
        if isinstance(x, ast.Subscript) and isinstance(x.ctx, ast.Load) and chain(x.value) == "self.elements":
            k = x.slice
        elif isinstance(x, ast.Call) and chain(x.func) == "self.elements.get" and x.args:
            k = x.args[0]
        if k is None:
            continue
        if not (recursive or any(isinstance(a, _LOOPS) for a in ancestors(x))):
            continue
        steps.append((x, _cursor_of(v, k)))
    loops = [l for l in walk_no_nested(v.node) if isinstance(l, _LOOPS) and any(_inside(x, l) for x, c in steps)]
    if not steps:
        if any(isinstance(l, ast.While) for l in walk_no_nested(v.node)):
            raise AnalysisError(f"undecided: no step `self.elements[<cursor>.previous_token_hash]` recognised in the loop of {v.qualname}")
        return None
    cursors = {c for x, c in steps}
    if None in cursors or len(cursors) != 1:
        raise AnalysisError(f"undecided: the cursor of the walk in {v.qualname} could not be identified")
    cur = next(iter(cursors))
    ver = [n for n in cfg.nodes if n.kind == "cond" and _is_verify_call(v, n.ast, cur)]
    gen = {}
    for n in cfg.nodes:
        if n.kind == "cond":
            f = fact_of(n.ast, True)
            if f.op == "eq":
                sides = [(f.left, f.right), (f.right, f.left)]
                if any(_x(v, a) == "self.genesis_hash" and _cursor_of(v, b) == cur for a, b in sides):
                    gen[n] = f.pos
    # paths are followed from every (re)definition of the cursor: the facts must hold for the *current* token
    defs = [n for s, val, i in local_defs(v, cur) for n in cfg.nodes_for(s)]
    starts = [cfg.entry] + [w for d in defs for w, lab in d.succ if lab != "exc"]
    unverified = cfg.reach(starts, cut_edge=lambda u, w, lab: u in ver and lab is True)
    not_root = cfg.reach(starts, cut_edge=lambda u, w, lab: u in gen and lab is gen[u])
    # advancing to the parent happens only after the signature of the current token was checked
    verified = bool(ver) and all(n not in unverified for x, c in steps for n in cfg.nodes_for(x))
    # leaving the walk successfully: break, a non-empty result returned from inside the loop, or a flag that ends the loop
    done: list[ast.AST] = []
    bounds = {p for p in v.params()[2:]}
    for l in loops:
        for b in ast.walk(l):
            if isinstance(b, ast.Break):
                if any(isinstance(x, ast.Name) and x.id in bounds for f in facts_at(cfg, b) for x in ast.walk(f.atom)):
                    continue                 # leaves the loop because the depth bound is used up: the result is computed after the loop
                after = cfg.reach([w for n in cfg.nodes_for(b) for w, lab in n.succ if lab != "exc"], follow_exc=False)
                if not any(n.kind == "stmt" and isinstance(n.ast, ast.Return) and _is_success(n.ast.value) for n in after) and \
                        not any(isinstance(x, (ast.Yield, ast.YieldFrom)) for x in walk_no_nested(v.node)):
                    continue                 # gives up: nothing but a failure verdict (False / None / empty) can be returned after it
                done.append(b)
            elif isinstance(b, ast.Return) and _is_success(b.value):
                done.append(b)
            elif isinstance(l, ast.While) and isinstance(b, ast.Assign) and len(b.targets) == 1 and isinstance(b.targets[0], ast.Name) and isinstance(b.value, ast.Constant):
                d = _Deep(ctx.repo, v)
                d.fn = ast.Module(body=[], type_ignores=[])
                t = d._fold(_Sub({b.targets[0].id: b.value}).visit(_cl(l.test)))
                if d._truth(t) is False:
                    done.append(b)
    if recursive:
        for r in walk_no_nested(v.node):
            if isinstance(r, ast.Return) and _is_success(r.value) and not any(isinstance(c, ast.Call) and isinstance(c.func, ast.Attribute) and c.func.attr == v.name for c in ast.walk(r)):
                done.append(r)
    if not done:
        if any(isinstance(x, (ast.Yield, ast.YieldFrom)) for x in walk_no_nested(v.node)):
            raise AnalysisError(f"undecided: {v.qualname} walks towards the root as a generator; what its consumer takes for success is not derived")
        if any("genesis_hash" in norm(l.test) for l in loops if isinstance(l, ast.While)):
            raise AnalysisError(f"undecided: {v.qualname} ends its walk through the loop condition")
        return verified, False
    bad = [b for b in done if any(n in unverified or n in not_root for n in cfg.nodes_for(b))]
    if recursive and bad and all(isinstance(b, ast.Return) and not isinstance(b.value, ast.Constant) and not any(_inside(b, l) for l in loops) for b in bad):
        raise AnalysisError(f"undecided: {v.qualname} returns a computed verdict (`{norm(bad[0])[:50]}`) before the walk reached the genesis hash")
    return verified, not bad


def _is_success(value: ast.AST | None) -> bool:
    """a returned value that is not an obvious failure (None / False / empty literal)"""
    if value is None:
        return False
    if isinstance(value, ast.Call) and isinstance(value.func, ast.Name) and value.func.id == "bool" and len(value.args) == 1 and not value.keywords:
        return _is_success(value.args[0])           # bool(x) is a failure verdict exactly when x is one
    if isinstance(value, ast.Call) and isinstance(value.func, ast.Name) and value.func.id in ("list", "tuple", "dict", "set", "frozenset", "bool", "bytes", "str") \
            and not value.args and not value.keywords:
        return False                                 # list() / dict() ...: the empty value
    if isinstance(value, ast.IfExp):
        return _is_success(value.body) or _is_success(value.orelse)
    if isinstance(value, ast.Constant):
        return bool(value.value)
    if isinstance(value, (ast.List, ast.Tuple, ast.Set)):
        return bool(value.elts) and not all(isinstance(e, ast.Constant) and not e.value for e in value.elts)
    if isinstance(value, ast.Dict):
        return bool(value.keys)
    return True


class _NoEval(Exception):
    """the expression is not made of integers, comparisons and boolean connectives only"""


def _mini_eval(e: ast.AST, env: dict):
    """value of a comparison / boolean / small integer expression over the integer variables of env (nothing else is evaluated)"""
    e = strip_cast(e)
    if isinstance(e, ast.Constant) and (e.value is None or isinstance(e.value, (bool, int))):
        return e.value
    if isinstance(e, ast.Name) and e.id in env:
        return env[e.id]
    if isinstance(e, ast.UnaryOp) and isinstance(e.op, ast.Not):
        return not _mini_eval(e.operand, env)
    if isinstance(e, ast.UnaryOp) and isinstance(e.op, ast.USub):
        v = _mini_eval(e.operand, env)
        if isinstance(v, int) and not isinstance(v, bool):
            return -v
        raise _NoEval
    if isinstance(e, ast.BoolOp):
        v = None
        for x in e.values:
            v = _mini_eval(x, env)
            if bool(v) != isinstance(e.op, ast.And):
                return v
        return v
    if isinstance(e, ast.IfExp):
        return _mini_eval(e.body if _mini_eval(e.test, env) else e.orelse, env)
    if isinstance(e, ast.BinOp) and isinstance(e.op, (ast.Add, ast.Sub)):
        l, r = _mini_eval(e.left, env), _mini_eval(e.right, env)
        if all(isinstance(x, int) and not isinstance(x, bool) for x in (l, r)):
            return l + r if isinstance(e.op, ast.Add) else l - r
        raise _NoEval
    if isinstance(e, ast.Compare):
        left = _mini_eval(e.left, env)
        for op, c in zip(e.ops, e.comparators):
            right = _mini_eval(c, env)
            if isinstance(op, (ast.Is, ast.IsNot)):
                if left is not None and right is not None:
                    raise _NoEval
                r = (left is right) == isinstance(op, ast.Is)
            elif isinstance(op, (ast.Eq, ast.NotEq)):
                r = (left == right) == isinstance(op, ast.Eq)
            elif left is None or right is None:
                raise _NoEval
            elif isinstance(op, ast.Lt):
                r = left < right
            elif isinstance(op, ast.LtE):
                r = left <= right
            elif isinstance(op, ast.Gt):
                r = left > right
            elif isinstance(op, ast.GtE):
                r = left >= right
            else:
                raise _NoEval
            if not r:
                return False
            left = right
        return True
    if isinstance(e, ast.Call) and isinstance(e.func, ast.Name) and e.func.id == "bool" and len(e.args) == 1 and not e.keywords:
        return bool(_mini_eval(e.args[0], env))
    raise _NoEval


def _surely_nonempty(v: FuncInfo, e: ast.AST) -> bool:
    """e is a local list that starts as a non-empty list literal and is only ever extended"""
    e = strip_cast(e)
    if isinstance(e, (ast.List, ast.Tuple)):
        return bool(e.elts) and not all(isinstance(x, ast.Starred) for x in e.elts)
    if not isinstance(e, ast.Name) or is_param(v, e.id):
        return False
    ds = local_defs(v, e.id)
    if not ds:
        return False
    for st, val, k in ds:
        if isinstance(st, ast.AugAssign) and isinstance(st.op, ast.Add):
            continue
        if val is None or k is not None or not (isinstance(strip_cast(val), (ast.List, ast.Tuple)) and _surely_nonempty(v, val)):
            return False
    for x in walk_no_nested(v.node):
        if isinstance(x, ast.Attribute) and isinstance(x.value, ast.Name) and x.value.id == e.id and x.attr in ("pop", "clear", "remove", "__delitem__", "popleft"):
            return False
        if isinstance(x, (ast.Delete,)) and any(e.id in {y.id for y in ast.walk(t) if isinstance(y, ast.Name)} for t in x.targets):
            return False
    return True


def _budget_exit(ctx: Ctx, v: FuncInfo, name: str) -> None:
    """
    A walk bounded by a step budget (`while maxdepth == -1 or maxdepth > steps`) that runs out of budget leaves its loop with the token reached
    last not signature-checked and the genesis pointer not reached: what is returned then must be a failure verdict.  Decided by running the
    code behind the loop on the concrete state the loop is left in (steps == maxdepth == K, reached by any valid chain of more than K tokens);
    a concrete run can only refute - shapes that cannot be run this way are left to the other clauses.
    """
    fn = v.node
    bounds = [p for p in v.params()[2:] if not local_defs(v, p)]
    for i, loop in enumerate(fn.body):
        if not isinstance(loop, ast.While) or loop.orelse:
            continue
        names = {x.id for x in ast.walk(loop.test) if isinstance(x, ast.Name)}
        ms = [b for b in bounds if b in names]
        ss = [x for x in names if x not in ms and not is_param(v, x)]
        if len(ms) != 1 or len(ss) != 1 or len(names) != 2:
            continue
        m, s = ms[0], ss[0]
        ds = local_defs(v, s)
        init = [d for d in ds if isinstance(d[0], (ast.Assign, ast.AnnAssign)) and d[1] is not None and d[2] is None and const_value(d[1]) == 0 and
                any(d[0] is st for st in fn.body[:i])]
        incs = [d[0] for d in ds if any(d[0] is st for st in loop.body) and (
            (isinstance(d[0], ast.AugAssign) and isinstance(d[0].op, ast.Add) and const_value(d[0].value) == 1) or
            (isinstance(d[0], ast.Assign) and norm(d[0].value) in (f"{s} + 1", f"1 + {s}")))]
        if len(ds) != 2 or len(init) != 1 or len(incs) != 1 or any(isinstance(x, ast.Continue) for x in ast.walk(loop)):
            continue
        K = 3
        try:
            shape = all(_mini_eval(loop.test, {s: j, m: K}) for j in range(K)) and not _mini_eval(loop.test, {s: K, m: K})
        except _NoEval:
            continue
        if not shape:
            continue
        env: dict = {s: K, m: K}
        sym: dict[str, ast.AST] = {}
        todo = list(fn.body[i + 1:])
        verdict = None
        why = None
        steps_left = 50
        while todo and steps_left:
            steps_left -= 1
            st = todo.pop(0)
            if isinstance(st, ast.If):
                try:
                    todo = list(st.body if _mini_eval(st.test, env) else st.orelse) + todo
                except _NoEval:
                    break
            elif isinstance(st, ast.Expr) and isinstance(st.value, ast.Call) and (chain(st.value.func) or "").startswith(("self._logger.", "self.logger.", "logging.")):
                continue
            elif isinstance(st, ast.Assign) and len(st.targets) == 1 and isinstance(st.targets[0], ast.Name) and st.targets[0].id not in (s, m):
                try:
                    env[st.targets[0].id] = _mini_eval(st.value, env)
                    sym.pop(st.targets[0].id, None)
                except _NoEval:
                    x = strip_cast(st.value)
                    try:
                        while isinstance(x, ast.IfExp):
                            x = strip_cast(x.body if _mini_eval(x.test, env) else x.orelse)
                    except _NoEval:
                        break
                    env.pop(st.targets[0].id, None)
                    sym[st.targets[0].id] = x
            elif isinstance(st, ast.Return):
                x = strip_cast(st.value) if st.value is not None else ast.Constant(None)
                try:
                    while isinstance(x, ast.IfExp):
                        x = strip_cast(x.body if _mini_eval(x.test, env) else x.orelse)
                    if isinstance(x, ast.Name) and x.id in sym:
                        x = sym[x.id]
                    try:
                        verdict = bool(_mini_eval(x, env))
                    except _NoEval:
                        if isinstance(x, (ast.List, ast.Tuple, ast.Set, ast.Dict)) and not (x.keys if isinstance(x, ast.Dict) else x.elts):
                            verdict = False
                        elif _surely_nonempty(v, x) and not (isinstance(x, ast.Name) and (x.id in env or x.id in sym)):
                            verdict = True
                    why = st
                except _NoEval:
                    pass
                break
            else:
                break
        if verdict is None:
            ctx.note(f"{name}: what is returned when the step budget runs out was not decided by a concrete run")
            continue
        ctx.check(not verdict, "wire-chunks", v, why, f"{name}: a walk that runs out of its step budget ({s} == {m}) reports failure",
                  f"{name} reports success (`{norm(why)[:60]}`) when the walk leaves its loop because the step budget is used up ({s} == {m}): the token reached last "
                  "has not been signature-checked and the genesis pointer has not been reached, so a chain of more than "
                  f"{m} tokens is accepted / returned as a root path without ending at the root")


def _walk_to_root(ctx: Ctx, f2: FuncInfo, name: str) -> None:
    """verify / get_root_path: every token on the walk is signature-checked; the walk succeeds only at the genesis hash."""
    units = _walk_units(ctx, f2)
    results = [r for r in (_walk_unit(ctx, v) for v in units) if r is not None]
    ok = bool(results) and all(a and b for a, b in results)
    ctx.check(ok, "wire-chunks", f2, f2.node, f"{name}: each step's signature is checked; the walk ends only at the genesis hash",
              f"{name} accepts a path without checking every signature or without reaching the genesis")
    for v in units:
        _budget_exit(ctx, v, name)


def _digest_sizes() -> dict[str, int]:
    import hashlib
    out = {}
    for name in hashlib.algorithms_guaranteed:
        if not name.startswith("shake"):
            try:
                out[name] = hashlib.new(name).digest_size          # a documented constant of the standard library
            except (ValueError, TypeError):
                pass
    return out


_DIGEST_SIZES = _digest_sizes()


def _bound_once(m, value: ast.AST) -> bool:
    """the module-level name defined by `value` is bound exactly once in its module (no second assignment, no `global` rebinding)"""
    st = parent(value)
    names = [t.id for t in (st.targets if isinstance(st, ast.Assign) else [st.target] if isinstance(st, ast.AnnAssign) else []) if isinstance(t, ast.Name)]
    if len(names) != 1:
        return False
    name = names[0]
    stores_ = sum(1 for x in ast.walk(m.tree) if isinstance(x, ast.Name) and x.id == name and isinstance(x.ctx, (ast.Store, ast.Del)))
    rebinds = any(isinstance(x, (ast.Global, ast.Nonlocal)) and name in x.names for x in ast.walk(m.tree))
    return stores_ == 1 and not rebinds


def _konst(repo, m, e: ast.AST | None, cls=None, shadow: frozenset = frozenset(), depth: int = 0):
    """
    The value of a constant expression, also when it is DERIVED instead of written as a literal: module / class constants, arithmetic,
    `struct.calcsize(F)`, `struct.Struct(F).size`, `len(C)`, `hashlib.<algo>().digest_size`, f-strings of constants.  NOCONST when unknown;
    names in `shadow` are locals of the function the expression stands in and are never read as module constants.
    """
    if e is None or depth > 12:
        return _NOCONST
    v = const_value(e)
    if v is not _NOCONST:
        return v
    again = lambda x, mm=m, cc=cls, sh=shadow: _konst(repo, mm, x, cc, sh, depth + 1)  # noqa: E731

    def hashlib_name(f: ast.AST) -> str | None:
        c = chain(f) or ""
        if c.startswith("hashlib.") and c.count(".") == 1:
            return c.split(".")[1]
        if isinstance(f, ast.Name) and f.id not in shadow and m.imports.get(f.id, ("", None))[0] == "hashlib":
            return m.imports[f.id][1]
        return None

    def struct_fn(f: ast.AST, name: str) -> bool:
        c = chain(f) or ""
        return c == "struct." + name or (isinstance(f, ast.Name) and f.id not in shadow and m.imports.get(f.id, ("", None)) == ("struct", name))

    if isinstance(e, ast.Name):
        if e.id in shadow:
            return _NOCONST
        r = repo.resolve_name(m, e.id)
        if isinstance(r, tuple) and r[0] == "const" and _bound_once(r[1], r[2]):
            return _konst(repo, r[1], r[2], None, frozenset(), depth + 1)
        return _NOCONST
    if isinstance(e, ast.Attribute):
        base = e.value
        if e.attr in ("digest_size", "size"):
            for _ in range(3):                              # a module constant holding the hash / layout object
                if isinstance(base, ast.Name) and base.id not in shadow:
                    r = repo.resolve_name(m, base.id)
                    if isinstance(r, tuple) and r[0] == "const" and isinstance(r[2], ast.Call) and _bound_once(r[1], r[2]):
                        return _konst(repo, r[1], ast.copy_location(ast.Attribute(value=r[2], attr=e.attr, ctx=ast.Load()), e), None, frozenset(), depth + 1)
                break
            if isinstance(base, ast.Call) and e.attr == "digest_size":
                name = hashlib_name(base.func)
                if name is None and chain(base.func) == "hashlib.new" and base.args:
                    name = again(base.args[0])
                return _DIGEST_SIZES.get(name, _NOCONST) if isinstance(name, str) else _NOCONST
            if isinstance(base, ast.Call) and e.attr == "size" and struct_fn(base.func, "Struct") and len(base.args) == 1 and not base.keywords:
                fmt = again(base.args[0])
                if isinstance(fmt, (str, bytes)):
                    try:
                        return struct.calcsize(fmt)
                    except struct.error:
                        return _NOCONST
                return _NOCONST
        c = None
        if isinstance(base, ast.Name) and base.id in ("self", "cls") and cls is not None:
            c = cls
        elif not (isinstance(base, ast.Name) and base.id in shadow):
            c = repo.resolve_class_expr(m, base)
        if c is not None:
            a = c.lookup_attr(e.attr)
            if a is not None:
                owner = next(k for k in c.mro() if e.attr in k.attrs)
                return _konst(repo, owner.module, a, owner, frozenset(), depth + 1)
        return _NOCONST
    if isinstance(e, ast.Call) and not e.keywords and len(e.args) == 1 and not isinstance(e.args[0], ast.Starred):
        if struct_fn(e.func, "calcsize"):
            fmt = again(e.args[0])
            if isinstance(fmt, (str, bytes)):
                try:
                    return struct.calcsize(fmt)
                except struct.error:
                    return _NOCONST
            return _NOCONST
        if isinstance(e.func, ast.Name) and e.func.id == "len" and "len" not in shadow:
            x = again(e.args[0])
            return len(x) if isinstance(x, (str, bytes, tuple)) else _NOCONST
        return _NOCONST
    if isinstance(e, ast.BinOp):
        l, r = again(e.left), again(e.right)
        if l is _NOCONST or r is _NOCONST or isinstance(l, bool) or isinstance(r, bool):
            return _NOCONST
        try:
            if isinstance(e.op, ast.Add):
                return l + r
            if isinstance(e.op, ast.Sub):
                return l - r
            if isinstance(e.op, ast.Mult) and (isinstance(l, int) or isinstance(r, int)) and (not isinstance(l, int) or abs(l) < 4096) and (not isinstance(r, int) or abs(r) < 4096):
                return l * r
            if isinstance(e.op, ast.FloorDiv) and isinstance(l, int) and isinstance(r, int) and r:
                return l // r
            if isinstance(e.op, ast.LShift) and isinstance(l, int) and isinstance(r, int) and 0 <= r < 64:
                return l << r
        except Exception:  # noqa: BLE001
            return _NOCONST
        return _NOCONST
    if isinstance(e, ast.JoinedStr):
        parts = []
        for x in e.values:
            if isinstance(x, ast.Constant) and isinstance(x.value, str):
                parts.append(x.value)
            elif isinstance(x, ast.FormattedValue) and x.format_spec is None and x.conversion == -1:
                v = again(x.value)
                if isinstance(v, bool) or not isinstance(v, (int, str)):
                    return _NOCONST
                parts.append(str(v))
            else:
                return _NOCONST
        return "".join(parts)
    return _NOCONST


def _fold_derived(repo, fi: FuncInfo, e: ast.AST | None) -> ast.AST | None:
    """copy of e in which every sub-expression that is a (derived) int / str / bytes constant is written as the literal it evaluates to;
    constant interpolations of an f-string become part of its text"""
    if e is None:
        return None
    shadow = frozenset(set(fi.params()) | {x.id for x in ast.walk(fi.node) if isinstance(x, ast.Name) and isinstance(x.ctx, (ast.Store, ast.Del))})

    def lit(x):
        v = _konst(repo, fi.module, x, fi.cls, shadow)
        return v if v is not _NOCONST and not isinstance(v, bool) and isinstance(v, (int, str, bytes)) else _NOCONST

    class F(ast.NodeTransformer):
        def visit(self, n):
            if isinstance(n, (ast.Name, ast.Attribute, ast.Call, ast.BinOp)) and not isinstance(getattr(n, "ctx", None), (ast.Store, ast.Del)):
                v = lit(n)
                if v is not _NOCONST:
                    return ast.copy_location(ast.Constant(v), n)
            return super().visit(n)

        def visit_JoinedStr(self, n):  # noqa: N802
            vals: list = []
            for x in n.values:
                if isinstance(x, ast.FormattedValue) and x.format_spec is None and x.conversion == -1:
                    v = lit(x.value)
                    if v is not _NOCONST and isinstance(v, (int, str)):
                        x = ast.copy_location(ast.Constant(str(v)), x)
                    else:
                        x.value = self.visit(x.value)
                if isinstance(x, ast.Constant) and vals and isinstance(vals[-1], ast.Constant):
                    vals[-1] = ast.copy_location(ast.Constant(vals[-1].value + x.value), vals[-1])
                else:
                    vals.append(x)
            if len(vals) == 1 and isinstance(vals[0], ast.Constant):
                return ast.copy_location(vals[0], n)
            n.values = vals
            return n
    return ast.fix_missing_locations(F().visit(_cl(e)))


def _format_pieces(e: ast.AST | None, depth: int = 0) -> list | None:
    """
    A string expression as the sequence of its pieces, each a constant `str` or `("val", text)` for the decimal rendering of an integer
    expression: literals, f-strings, `a + b`, `"..%d.." % x`, `"..{}..".format(x)`, `str(x)`, `"".join([...])`, `piece * n`.  None when the
    expression is not understood completely.
    """
    if e is None or depth > 8:
        return None
    e = strip_cast(e)
    if isinstance(e, ast.Constant):
        return [e.value] if isinstance(e.value, str) else None
    if isinstance(e, ast.JoinedStr):
        out: list = []
        for x in e.values:
            if isinstance(x, ast.Constant) and isinstance(x.value, str):
                out.append(x.value)
            elif isinstance(x, ast.FormattedValue) and x.conversion == -1 and \
                    (x.format_spec is None or (isinstance(x.format_spec, ast.JoinedStr) and [getattr(v, "value", None) for v in x.format_spec.values] == ["d"])):
                out.append(("val", norm(x.value)))
            else:
                return None
        return out
    if isinstance(e, ast.BinOp) and isinstance(e.op, ast.Add):
        l, r = _format_pieces(e.left, depth + 1), _format_pieces(e.right, depth + 1)
        return None if l is None or r is None else l + r
    if isinstance(e, ast.BinOp) and isinstance(e.op, ast.Mult):
        for s, n in ((e.left, e.right), (e.right, e.left)):
            k = const_value(n)
            if isinstance(k, int) and not isinstance(k, bool) and 0 <= k <= 16:
                p = _format_pieces(s, depth + 1)
                return None if p is None else p * k
        return None
    if isinstance(e, ast.BinOp) and isinstance(e.op, ast.Mod) and isinstance(e.left, ast.Constant) and isinstance(e.left.value, str):
        x = e.right.elts[0] if isinstance(e.right, ast.Tuple) and len(e.right.elts) == 1 else e.right
        if isinstance(x, (ast.Tuple, ast.Dict)) or e.left.value.count("%") != 1:
            return None
        for spec in ("%d", "%i", "%s"):
            if spec in e.left.value:
                pre, suf = e.left.value.split(spec)
                return [pre, ("val", norm(x)), suf]
        return None
    if isinstance(e, ast.Call) and isinstance(e.func, ast.Attribute) and e.func.attr == "format" and isinstance(e.func.value, ast.Constant) \
            and isinstance(e.func.value.value, str) and len(e.args) == 1 and not e.keywords and not isinstance(e.args[0], ast.Starred):
        t = e.func.value.value
        if t.count("{") != 1 or t.count("}") != 1:
            return None
        for spec in ("{}", "{0}", "{:d}", "{0:d}"):
            if spec in t:
                pre, suf = t.split(spec)
                return [pre, ("val", norm(e.args[0])), suf]
        return None
    if isinstance(e, ast.Call) and chain(e.func) in ("str", "repr") and len(e.args) == 1 and not e.keywords and not isinstance(e.args[0], ast.Starred):
        return [("val", norm(e.args[0]))]
    if isinstance(e, ast.Call) and isinstance(e.func, ast.Attribute) and e.func.attr == "join" and isinstance(e.func.value, ast.Constant) and e.func.value.value == "" \
            and len(e.args) == 1 and not e.keywords and isinstance(e.args[0], (ast.Tuple, ast.List)) and not any(isinstance(x, ast.Starred) for x in e.args[0].elts):
        out = []
        for x in e.args[0].elts:
            p = _format_pieces(x, depth + 1)
            if p is None:
                return None
            out += p
        return out
    return None


def _format_parts(e: ast.AST | None) -> tuple[str, str, str] | None:
    """(constant prefix, text of the interpolated expression, constant suffix) of a struct format built from one value"""
    pieces = _format_pieces(e)
    if pieces is not None:
        merged: list = []
        for p in pieces:
            if isinstance(p, str) and merged and isinstance(merged[-1], str):
                merged[-1] += p
            elif p != "":
                merged.append(p)
        vals = [i for i, p in enumerate(merged) if not isinstance(p, str)]
        if len(vals) == 1:
            i = vals[0]                          # adjacent constants are merged: at most one piece on either side of the value
            return "".join(merged[:i]), merged[i][1], "".join(merged[i + 1:])
    if isinstance(e, ast.JoinedStr) and len(e.values) == 3 and isinstance(e.values[0], ast.Constant) and isinstance(e.values[1], ast.FormattedValue) \
            and isinstance(e.values[2], ast.Constant) and e.values[1].format_spec is None and e.values[1].conversion == -1:
        return e.values[0].value, norm(e.values[1].value), e.values[2].value
    if isinstance(e, ast.BinOp) and isinstance(e.op, ast.Mod) and isinstance(e.left, ast.Constant) and isinstance(e.left.value, str):
        x = e.right.elts[0] if isinstance(e.right, ast.Tuple) and len(e.right.elts) == 1 else e.right
        for spec in ("%d", "%i", "%s"):
            if e.left.value.count("%") == 1 and spec in e.left.value and not isinstance(x, ast.Tuple):
                pre, suf = e.left.value.split(spec)
                return pre, norm(x), suf
    if isinstance(e, ast.Call) and isinstance(e.func, ast.Attribute) and e.func.attr == "format" and isinstance(e.func.value, ast.Constant) \
            and isinstance(e.func.value.value, str) and len(e.args) == 1 and not e.keywords:
        t = e.func.value.value
        for spec in ("{}", "{0}", "{:d}", "{0:d}"):
            if t.count("{") == 1 and spec in t:
                pre, suf = t.split(spec)
                return pre, norm(e.args[0]), suf
    if isinstance(e, ast.BinOp) and isinstance(e.op, ast.Add) and isinstance(e.right, ast.Constant) and isinstance(e.left, ast.BinOp) and isinstance(e.left.op, ast.Add) \
            and isinstance(e.left.left, ast.Constant) and isinstance(e.left.right, ast.Call) and chain(e.left.right.func) == "str" and len(e.left.right.args) == 1:
        return e.left.left.value, norm(e.left.right.args[0]), e.right.value
    return None


def _layout_formats(tu: FuncInfo, e: ast.AST | None, key: str, depth: int = 4) -> list[ast.AST] | None:
    """
    The struct formats a layout object can have been compiled from: `struct.Struct(fmt)` built here, a local with several reaching
    definitions of that kind, or an entry of a cache table that is keyed by `key` (the signature length) and only ever filled -
    in this function - with `table[key] = struct.Struct(<format interpolating key>)`.  None: not a layout built for this key.
    """
    if e is None or depth <= 0:
        return None
    e = strip_cast(e)
    if isinstance(e, ast.Name):
        r = _reaching(tu, e)
        if r is None:
            return None
        out: list[ast.AST] = []
        for s_, v, k in r:
            got = _layout_formats(tu, v, key, depth - 1) if v is not None and k is None else None
            if got is None:
                return None
            out.extend(got)
        return out
    if isinstance(e, ast.Call) and (chain(e.func) or "").split(".")[-1] == "Struct" and len(e.args) == 1 and not e.keywords:
        return [_expand(tu, e.args[0])]
    table = k = None
    if isinstance(e, ast.Subscript) and isinstance(e.ctx, ast.Load):
        table, k = e.value, e.slice
    elif isinstance(e, ast.Call) and isinstance(e.func, ast.Attribute) and e.func.attr in ("get", "setdefault") and e.args and \
            (len(e.args) == 1 or e.func.attr == "setdefault" or _is_none(e.args[1])):
        table, k = e.func.value, e.args[0]
    tname = chain(table) if table is not None else None
    if tname is None or _x(tu, k) != key:
        return None
    last = tname.split(".")[-1]
    origin = getattr(tu, "origin", tu)
    for f in tu.module.all_functions:
        if f.node is origin.node or any(f.node is h.node for h in getattr(tu, "inlined", [])):
            continue
        for x in walk_no_nested(f.node):
            if (isinstance(x, ast.Subscript) and isinstance(x.ctx, (ast.Store, ast.Del)) and (chain(x.value) or "").split(".")[-1] == last) or \
                    (isinstance(x, ast.Call) and isinstance(x.func, ast.Attribute) and x.func.attr in ("update", "setdefault", "__setitem__", "pop", "clear")
                     and (chain(x.func.value) or "").split(".")[-1] == last) or \
                    (isinstance(x, ast.Attribute) and isinstance(x.ctx, (ast.Store, ast.Del)) and x.attr == last):
                raise AnalysisError(f"undecided: the layout cache `{tname}` read by {tu.qualname} is also written in {f.qualname}")
    out = []
    ws = _writes(tu, tname)
    if not ws:
        return None
    for s_, wk, wv, kind in ws:
        if kind != "set" or wk is None or wv is None or _x(tu, wk) != key:
            raise AnalysisError(f"undecided: the layout cache `{tname}` is written by `{norm(s_)[:60]}`; cannot tell which layout an entry holds")
        got = _layout_formats(tu, wv, key, depth - 1)
        if got is None:
            return None
        out.extend(got)
    return out


def _token_layout(tu: FuncInfo, tparams: list[str], repo=None) -> int | None:
    """size of the constant part of the struct format Token.unserialize reads at (data, offset): `<prefix>{signature length}s`"""
    key = f"{tparams[1]}.get_signature_length()"
    for c in calls(tu):
        if call_name(c) != "unpack_from":
            continue
        recv = c.func.value if isinstance(c.func, ast.Attribute) else None
        if recv is None or chain(_expand(tu, recv)) == "struct":
            fmts, buf, off = [_expand(tu, arg(c, 0, "format"))], arg(c, 1, "buffer"), arg(c, 2, "offset")
        else:
            # struct.Struct(fmt).unpack_from(data, offset): built here, or taken from a cache keyed by the signature length
            fmts, buf, off = _layout_formats(tu, recv, key), arg(c, 0, "buffer"), arg(c, 1, "offset")
        if not fmts or _x(tu, buf) != tparams[0] or _x(tu, off) != tparams[2]:
            continue                         # a layout object that was not built for this key (e.g. cached on the class, whatever the key)
        sizes = set()
        for fmt in fmts:
            parts = _format_parts(_fold_derived(repo, tu, fmt) if repo is not None else fmt)
            if parts is None or parts[2] != "s" or parts[1] != key:
                sizes.add(None)
                continue
            try:
                sizes.add(struct.calcsize(parts[0]))
            except struct.error:
                sizes.add(None)
        if len(sizes) == 1 and None not in sizes:
            return sizes.pop()
    return None


def _built_from_range(up: FuncInfo, coll: ast.AST):
    """(range call, loop variable text, element expression) when `coll` is a list built completely from one pass over a range"""
    e = strip_cast(coll)
    while isinstance(e, ast.Call) and isinstance(e.func, ast.Name) and e.func.id in ("list", "tuple") and len(e.args) == 1:
        e = e.args[0]
    via = None
    if isinstance(e, ast.Name):
        via = e.id
        ds = local_defs(up, e.id)
        if len(ds) == 1 and ds[0][1] is not None and ds[0][2] is None:
            v = strip_cast(ds[0][1])
            if isinstance(v, ast.List) and not v.elts:
                # xs = []; for i in range(..): xs.append(E)
                apps = [c for c in calls(up) if isinstance(c.func, ast.Attribute) and c.func.attr == "append" and chain(c.func.value) == e.id]
                others = [c for c in calls(up) if isinstance(c.func, ast.Attribute) and chain(c.func.value) == e.id and c.func.attr not in ("append",)]
                if len(apps) == 1 and not others and len(apps[0].args) == 1:
                    loop, gen = _loop_of(apps[0], up.node)
                    if isinstance(loop, ast.For) and gen is None and isinstance(parent(apps[0]), ast.Expr) and parent(parent(apps[0])) is loop and \
                            not any(isinstance(x, (ast.Break, ast.Return, ast.Continue)) for x in ast.walk(loop)):
                        return _expand(up, loop.iter), norm(loop.target), apps[0].args[0]
                return None
            e = v
            while isinstance(e, ast.Call) and isinstance(e.func, ast.Name) and e.func.id in ("list", "tuple") and len(e.args) == 1:
                e = e.args[0]
    if isinstance(e, (ast.ListComp, ast.GeneratorExp)) and len(e.generators) == 1 and not e.generators[0].ifs:
        if isinstance(e, ast.GeneratorExp) and not (isinstance(parent(e), ast.Call) and chain(parent(e).func) in ("list", "tuple")):
            # a lazy stage of a pipeline: read by nothing but the loop that consumes it (which is checked for completeness by the caller)
            if via is None or sum(1 for n in ast.walk(up.node) if isinstance(n, ast.Name) and n.id == via and isinstance(n.ctx, ast.Load)) != 1:
                return None
        return _expand(up, e.generators[0].iter), norm(e.generators[0].target), e.elt
    return None


def rule_wire(ctx: Ctx) -> None:
    repo = ctx.repo
    up = _view(ctx, repo.method("TokenTree", "unserialize_public", TR))
    cfg = ctx.cfg(up)
    data = up.params()[1]
    tu = _view(ctx, repo.method("Token", "unserialize", TK))
    tparams = [p for p in tu.params() if p != "cls"]          # data, public_key, offset
    # struct format of one token: constant prefix + `{signature length}s`
    fixed = _token_layout(tu, tparams, repo) if len(tparams) >= 3 else None
    g = [c for c in calls(up, "self.gather_token")]
    loop, gen = _loop_of(g[0], up.node) if len(g) == 1 else (None, None)
    wloop = None
    if len(g) == 1 and loop is None:
        wloop = next((a for a in ancestors(g[0]) if isinstance(a, ast.While)), None)
    un = step = var = None
    if loop is not None:
        it = _expand(up, gen.iter if gen is not None else loop.iter)
        var = norm(gen.target if gen is not None else loop.target)
        un = _expand(up, arg(g[0], 0, "token"))
        if not (isinstance(it, ast.Call) and chain(it.func) == "range"):
            # two passes: all chunks are unserialized into a list first, then every element of the list is offered
            built = _built_from_range(up, gen.iter if gen is not None else loop.iter)
            if built is not None and isinstance(gen.target if gen is not None else loop.target, ast.Name):
                # the element of the list stands for the loop variable in what is offered
                offered = _Sub({var: built[2]}).visit(_cl(arg(g[0], 0, "token")))
                ast.fix_missing_locations(offered)
                it, var, un = built[0], built[1], _expand_text(up, offered)
        if isinstance(it, ast.Call) and chain(it.func) == "range" and len(it.args) == 3 and not it.keywords and const_value(it.args[0]) == 0 \
                and norm(it.args[1]) == f"len({data})":
            step = it.args[2]
    elif wloop is not None:
        # i = 0 / while i < len(data): ... / i += step
        f = fact_of(strip_cast(wloop.test), True)
        if f.op == "lt" and f.pos and isinstance(strip_cast(f.left), ast.Name) and _x(up, f.right) == f"len({data})":
            var = strip_cast(f.left).id
            ds = local_defs(up, var)
            init = [d for d in ds if isinstance(d[0], (ast.Assign, ast.AnnAssign))]
            incs = [d[0] for d in ds if isinstance(d[0], ast.AugAssign) and isinstance(d[0].op, ast.Add) and _inside(d[0], wloop)]
            if len(ds) == 2 and len(init) == 1 and len(incs) == 1 and const_value(init[0][1]) == 0 and not _inside(init[0][0], wloop):
                inc_nodes = cfg.nodes_for(incs[0])
                once = True
                for ln in cfg.nodes_for(wloop):
                    for cn in [x for x in cfg.nodes if x.kind == "cond" and x.ast is not None and _inside(x.ast, wloop.test)] or [ln]:
                        r = cfg.reach([v for v, lab in cn.succ if lab is True], cut_nodes=inc_nodes, follow_exc=False)
                        once = once and ln not in r
                if once:
                    step = _expand(up, incs[0].value)
                    un = _expand(up, arg(g[0], 0, "token"))
                    loop = wloop
    if loop is not None and step is None and not isinstance(loop, ast.While):
        src_it = _expand(up, gen.iter if gen is not None else loop.iter)
        lib = [x for x in ast.walk(src_it) if isinstance(x, ast.Name) and up.module.imports.get(x.id, ("", None))[0] == "itertools"]
        if lib:
            raise AnalysisError(f"undecided: unserialize_public takes the chunk offsets from an itertools pipeline (`{norm(src_it)[:60]}`); "
                                "which offsets it yields is not derived")
    size_ok = False
    if isinstance(step, ast.BinOp) and isinstance(step.op, ast.Add):
        # a sum of constant terms (literal or derived: calcsize, Struct.size, len, digest_size, products of those) and ONE signature length
        terms: list[ast.AST] = []

        def flat(x: ast.AST) -> None:
            x = strip_cast(x)
            if isinstance(x, ast.BinOp) and isinstance(x.op, ast.Add):
                flat(x.left)
                flat(x.right)
            else:
                terms.append(x)
        flat(step)
        shadow = frozenset(set(up.params()) | {x.id for x in ast.walk(up.node) if isinstance(x, ast.Name) and isinstance(x.ctx, (ast.Store, ast.Del))})
        sig = [x for x in terms if norm(x) == "self.public_key.get_signature_length()"]
        consts = [_konst(repo, up.module, x, up.cls, shadow) for x in terms if norm(x) != "self.public_key.get_signature_length()"]
        ints = [v for v in consts if isinstance(v, int) and not isinstance(v, bool)]
        size_ok = len(ints) == len(consts) and bool(ints) and len(sig) == 1 and fixed is not None and sum(ints) == fixed
    ctx.check(size_ok, "wire-chunks", up, up.node, "chunk size 64 + sig_len == size of >32s32s{sig_len}s", "wire chunk size and token struct format disagree")
    ok = loop is not None and step is not None
    if ok:
        ok = isinstance(un, ast.Call) and chain(un.func) == "Token.unserialize" and norm(arg(un, 1, tparams[1])) == "self.public_key" and \
            len(g[0].args) + len(g[0].keywords) == 1
        if ok:
            a0, off = arg(un, 0, tparams[0]), arg(un, 2, tparams[2])
            whole = norm(a0) == data and off is not None and _x(up, off) == var
            # a slice that starts at the chunk's offset and spans (at least) one chunk, read from its own offset 0
            sl = a0.slice if isinstance(a0, ast.Subscript) and norm(a0.value) == data and isinstance(a0.slice, ast.Slice) else None
            sliced = sl is not None and sl.step is None and sl.lower is not None and _x(up, sl.lower) == var and (off is None or const_value(off) == 0) and \
                (sl.upper is None or _concat(_expand(up, sl.upper)) in (f"{var} + {_concat(step)}", f"{_concat(step)} + {var}"))
            ok = whole or sliced
    every = ok
    if ok and gen is None:
        ok = not any(isinstance(x, (ast.Break, ast.Return)) for x in ast.walk(loop))
        # no iteration completes without the gather_token call having been evaluated
        gn = cfg.nodes_for(g[0])
        for ln in cfg.nodes_for(loop):
            heads = [ln] if not isinstance(loop, ast.While) else ([x for x in cfg.nodes if x.kind == "cond" and x.ast is not None and _inside(x.ast, loop.test)] or [ln])
            for hd in heads:
                r = cfg.reach([v for v, lab in hd.succ if lab is True], cut_nodes=gn, follow_exc=False)
                every = every and ln not in r and cfg.exit not in r
    elif ok:
        consumer = parent(loop)
        full = not isinstance(loop, ast.GeneratorExp) or (isinstance(consumer, ast.Call) and (
            (chain(consumer.func) in (*_WRAPPERS, "sum", "min", "max", "dict") and consumer.args and consumer.args[0] is loop) or
            ((chain(consumer.func) or "").split(".")[-1] == "reduce" and len(consumer.args) >= 2 and consumer.args[1] is loop) or
            ((chain(consumer.func) or "").split(".")[-1] == "deque" and consumer.args and consumer.args[0] is loop) or
            (isinstance(consumer.func, ast.Attribute) and consumer.func.attr == "join" and isinstance(consumer.func.value, ast.Constant))))
        if isinstance(loop, ast.GeneratorExp) and not isinstance(consumer, ast.Call):
            raise AnalysisError("undecided: unserialize_public offers the chunks from a generator whose consumer is not visible")
        every = every and full and len(loop.generators) == 1 and not gen.ifs and _inside(g[0], getattr(loop, "elt", getattr(loop, "value", None)))
    ctx.check(ok, "wire-chunks", up, up.node, "every chunk is unserialized and offered to gather_token", "unserialize_public skips chunks or bypasses gather_token")
    if ok:
        cond = [str(f) for f in expr_context_facts(g[0])]
        ctx.check(every and not cond, "wire-chunks", up, enclosing_stmt(g[0]), "gather_token is evaluated for every chunk, whatever the earlier chunks returned",
                  "unserialize_public offers a chunk to gather_token only while all earlier chunks were accepted (short-circuit / conditional call): "
                  "None is the normal result for a token that arrives before its parent, so a tip-first serialisation (serialize_public(up_to=...)) "
                  "no longer reloads to the same tree", cond)
    sp = _view(ctx, repo.method("TokenTree", "serialize_public", TR))
    emits = [c for c in calls(sp, nested=True) if call_name(c) == "get_plaintext_signed"]
    scfg = ctx.cfg(sp)
    enodes = [n for c in emits for n in scfg.nodes_for(c)]
    ctx.check(bool(emits) and scfg.exit not in scfg.reach(cut_nodes=enodes, follow_exc=False), "wire-chunks", sp, sp.node,
              "serialize_public emits get_plaintext_signed of each token (whichever way it is asked to walk)", "serialize_public does not emit the signed double pointers")
    for name in ("verify", "get_root_path"):
        _walk_to_root(ctx, repo.method("TokenTree", name, TR), name)


class _SameSigned(_Establish):
    """P = self and `other` agree on one `part` of the signed plaintext: "plain" (get_plaintext()) or "sig" (signature).
    A comparison of the whole signed plaintext / of the object hash (which covers both) establishes either part."""

    def __init__(self, ctx: Ctx, fi: FuncInfo, other: str, gps_ok: bool, part: str) -> None:
        super().__init__(ctx, fi, 0)
        self.other, self.gps_ok, self.part = other, gps_ok, part

    def atom(self, e: ast.AST) -> tuple[str, bool] | None:
        f = fact_of(e, True)
        if f.op == "is" and {_x(self.fi, f.left), _x(self.fi, f.right)} == {"self", self.other}:
            return self.part, f.pos                  # the very same object
        if f.op != "eq":
            return None
        l, r = _x(self.fi, f.left), _x(self.fi, f.right)
        both = ["self._hash", "self.get_hash()"] + (["self.get_plaintext_signed()"] if self.gps_ok else []) + \
               ["self.get_plaintext() + self.signature", "(self.get_plaintext(), self.signature)", "(self.signature, self.get_plaintext())"]
        one = ["self.get_plaintext()"] if self.part == "plain" else ["self.signature"]
        for a, b in ((l, r), (r, l)):
            if a in both + one and b == a.replace("self.", self.other + "."):
                return self.part, f.pos
        return None


def rule_signed_object(ctx: Ctx) -> None:
    so = _view(ctx, ctx.repo.method("AbstractSignedObject", "verify", SO))
    pk = so.params()[1]
    rets = [r for r in walk_no_nested(so.node) if isinstance(r, ast.Return)]
    ctx.anchor(rets, "return in AbstractSignedObject.verify")
    for r in rets:
        v = _expand(so, r.value)
        while True:
            if isinstance(v, ast.Call) and chain(v.func) == "bool" and len(v.args) == 1 and not v.keywords:
                v = v.args[0]
            elif isinstance(v, ast.IfExp) and const_value(v.body) is True and const_value(v.orelse) is False:
                v = v.test
            elif isinstance(v, ast.UnaryOp) and isinstance(v.op, ast.Not) and isinstance(v.operand, ast.UnaryOp) and isinstance(v.operand.op, ast.Not):
                v = v.operand.operand
            else:
                break
        is_check = isinstance(v, ast.Call) and call_name(v) == "is_valid_signature" and len(v.args) + len(v.keywords) == 3 and \
            [norm(arg(v, i, k)) for i, k in enumerate(("ec_key", "data", "signature"))] == [pk, "self.get_plaintext()", "self.signature"]
        is_false = const_value(r.value) is False
        ctx.check(is_check or is_false, "verify-before-keep", so, r, "verify(public_key) returns is_valid_signature(public_key, plaintext, signature) (or False)",
                  "AbstractSignedObject.verify can return a verdict that was not computed for the given public key (e.g. a cached result): a token that once verified "
                  "against its real signer verifies against every key")
    ctx.check(not local_defs(so, pk), "verify-before-keep", so, so.node, "public_key parameter not rebound", "verify rebinds the key it was asked to check")
    hsh = _view(ctx, ctx.repo.method("AbstractSignedObject", "_sign", SO))
    signed = "self.get_plaintext() + self.signature"
    gps = _view(ctx, ctx.repo.method("AbstractSignedObject", "get_plaintext_signed", SO))
    gps_rets = [r for r in walk_no_nested(gps.node) if isinstance(r, ast.Return)]
    gps_ok = bool(gps_rets) and all(_concat(_expand(gps, r.value)) == signed for r in gps_rets)
    ok = False
    for s_, t in stores(hsh, "self._hash"):
        covered = _hashed(hsh, getattr(s_, "value", None))
        ok = ok or _concat(covered) == signed or (norm(covered) == "self.get_plaintext_signed()" and gps_ok)
    ctx.check(ok, "verify-before-keep", hsh, hsh.node, "object hash covers plaintext and signature", "the object hash no longer covers plaintext + signature")
    # identity of a token as a key of the waiting area (an OrderedDict keyed by Token): tokens that differ in their
    # signature have different get_hash() values, i.e. are different elements of the tree, and must not compare equal
    tkc = ctx.repo.cls("Token", TK)
    eq0 = tkc.lookup("__eq__")
    if eq0 is not None:
        eq = _view(ctx, eq0)
        other = eq.params()[1] if len(eq.params()) > 1 else None
        ctx.anchor(other, "second parameter of __eq__")
        ecfg = ctx.cfg(eq)
        parts = [_SameSigned(ctx, eq, other, gps_ok, p) for p in ("plain", "sig")]
        edges = [p.edge_pred(ecfg) for p in parts]
        good = not local_defs(eq, other)
        for r in [r for r in walk_no_nested(eq.node) if isinstance(r, ast.Return)]:
            v = r.value if r.value is not None else ast.Constant(None)
            fine = (isinstance(v, ast.Constant) and not v.value) or norm(v) == "NotImplemented" or \
                all(p.establishes(v, True) or all(ecfg.must_pass_edges(n, e) for n in ecfg.nodes_for(r)) for p, e in zip(parts, edges))
            good = good and fine
        ctx.check(good, "wake-all", eq, eq.node, "tokens compare equal only if their signed plaintext (plaintext + signature) is equal",
                  f"{eq.qualname} can report two tokens with different signatures (hence different get_hash(), different elements of the tree) as equal: as keys of the "
                  "waiting area (OrderedDict keyed by Token) the second one replaces/loses against the first while it waits for its parent, but both are accepted when "
                  "the parent arrives first - the tree depends on arrival order")
    fdt = _view(ctx, ctx.repo.method("Token", "from_database_tuple", TK))
    for s_, t in stores(fdt, lambda c: c.endswith(".content")):
        ctx.check(False, "content-binding", fdt, s_, "reloaded content goes through receive_content", "content from the database is attached without the hash check")
    ctx.check(any(call_name(c) == "receive_content" for c in calls(fdt)), "content-binding", fdt, fdt.node, "from_database_tuple attaches content via receive_content",
              "from_database_tuple does not check reloaded content against the content hash")


# ------------------------------------------------------------------------------------ dump order (parents first)
# Abstract values for "a sequence of tokens (or of their serialised chunks)":
#   ("empty",)                        nothing
#   ("one", T)                        exactly the token named T
#   ("chain", O, B, incl)             ancestors of token B that are stored in the tree (B itself at the child end when incl), ordered
#                                     O = "CF" (child first: B, parent(B), parent(parent(B)) ..) or "PF" (parents first)
#   ("stored", O)                     every token of self.elements in insertion order (PF: _append stores a token only once its parent is
#                                     the genesis hash or contained, so a parent is always inserted before its children) or reversed (CF)
_EMPTY = ("empty",)
_SEQ_COPIES = ("list", "tuple", "iter", "bytes", "bytearray", "deque", "collections.deque", "memoryview")
_SEQ_READERS = ("reversed", "len", "enumerate", "map", "filter", "bool", "any", "all", "print", *_SEQ_COPIES)


def _undecided_order(fi: FuncInfo, what: str):
    return AnalysisError(f"undecided: dump order of {fi.qualname}: {what}")


def _flip(v: tuple) -> tuple:
    if v[0] == "chain":
        return ("chain", "PF" if v[1] == "CF" else "CF", v[2], v[3])
    if v[0] == "stored":
        return ("stored", "PF" if v[1] == "CF" else "CF")
    return v


def _innermost_loop(node: ast.AST, stop: ast.AST):
    """the innermost while / for statement whose body or test evaluates node"""
    prev = node
    for a in ancestors(node):
        if a is stop:
            return None
        if isinstance(a, (ast.For, ast.AsyncFor)) and prev is not a.iter and prev is not a.target and not any(prev is s for s in a.orelse):
            return a
        if isinstance(a, ast.While) and not any(prev is s for s in a.orelse):
            return a
        if isinstance(a, (ast.FunctionDef, ast.AsyncFunctionDef, ast.Lambda)):
            return None
        prev = a
    return None


class _OrderEval:
    """ORDER abstract interpretation of the expressions of one function (see the value domain above); whatever it does not understand
    completely is reported as undecided, never as a verdict."""

    def __init__(self, ctx: Ctx, fi: FuncInfo, bind: dict[str, str] | None = None, seqs: dict[str, list] | None = None, depth: int = 0) -> None:
        self.ctx, self.fi, self.bind, self.seqs, self.depth = ctx, fi, bind or {}, seqs or {}, depth
        self.cfg = ctx.cfg(fi)

    # ---------------------------------------------------------------- tokens
    def tok(self, e: ast.AST) -> str:
        x = _expand(self.fi, e)
        if isinstance(x, ast.Name) and x.id in self.bind and not [d for d in local_defs(self.fi, x.id) if _innermost_loop(d[0], self.fi.node) is None and
                                                                 not isinstance(d[0], _LOOPS)]:
            return self.bind[x.id]
        return norm(x)

    def elem(self, e: ast.AST) -> ast.AST:
        """the token expression X of an emitted element `X.get_plaintext_signed()` / `bytes(..)` of it / X itself"""
        e = strip_cast(e)
        while isinstance(e, ast.Call) and isinstance(e.func, ast.Name) and e.func.id in ("bytes", "bytearray", "memoryview") and len(e.args) == 1 and not e.keywords:
            e = strip_cast(e.args[0])
        if isinstance(e, ast.Call) and isinstance(e.func, ast.Attribute) and e.func.attr == "get_plaintext_signed" and not e.args and not e.keywords:
            return strip_cast(e.func.value)
        return e

    # ---------------------------------------------------------------- values
    def concat(self, a: tuple, b: tuple, at: ast.AST) -> tuple:
        if a[0] == "empty":
            return b
        if b[0] == "empty":
            return a
        if a[0] == "one" and b[0] == "chain" and b[1] == "CF" and not b[3] and b[2] == a[1]:
            return ("chain", "CF", b[2], True)
        if a[0] == "chain" and b[0] == "one" and a[1] == "PF" and not a[3] and a[2] == b[1]:
            return ("chain", "PF", a[2], True)
        if a[0] == "one" and b[0] == "chain" and b[1] == "PF" and b[2] == a[1]:
            return ("mixed", f"token {a[1]} in front of its own ancestors (`{norm(at)[:60]}`)")
        if "mixed" in (a[0], b[0]):
            return a if a[0] == "mixed" else b
        raise _undecided_order(self.fi, f"`{norm(at)[:60]}` joins {a} and {b}")

    def product(self, xs: list, ys: list, at: ast.AST) -> list:
        out = []
        for a in xs:
            for b in ys:
                v = self.concat(a, b, at)
                if v not in out:
                    out.append(v)
        return out

    def ev(self, e: ast.AST | None, d: int = 0) -> list:
        fi = self.fi
        if e is None or d > 14:
            raise _undecided_order(fi, "expression too deep")
        e = strip_cast(e)
        if isinstance(e, ast.Constant):
            if e.value in (b"", "") and isinstance(e.value, (bytes, str)):
                return [_EMPTY]
            raise _undecided_order(fi, f"constant `{norm(e)[:40]}` in the emitted sequence")
        if isinstance(e, (ast.List, ast.Tuple)):
            acc = [_EMPTY]
            for x in e.elts:
                part = self.ev(x.value, d + 1) if isinstance(x, ast.Starred) else [("one", self.tok(self.elem(x)))]
                acc = self.product(acc, part, e)
            return acc
        if isinstance(e, ast.NamedExpr):
            return self.ev(e.value, d + 1)
        if isinstance(e, ast.IfExp):
            out = self.ev(e.body, d + 1)
            return out + [v for v in self.ev(e.orelse, d + 1) if v not in out]
        if isinstance(e, ast.BinOp) and isinstance(e.op, ast.Add):
            return self.product(self.ev(e.left, d + 1), self.ev(e.right, d + 1), e)
        if isinstance(e, ast.Name):
            return self.name(e, d)
        if isinstance(e, (ast.ListComp, ast.GeneratorExp)):
            if len(e.generators) != 1 or e.generators[0].is_async:
                raise _undecided_order(fi, f"`{norm(e)[:60]}` iterates more than one sequence")
            g = e.generators[0]
            tnames = {x.id for x in ast.walk(g.target) if isinstance(x, ast.Name)}
            if not tnames & {x.id for x in ast.walk(e.elt) if isinstance(x, ast.Name)}:
                raise _undecided_order(fi, f"`{norm(e)[:60]}` does not emit the element it iterates")
            return self.ev(g.iter, d + 1)
        if isinstance(e, ast.Subscript) and isinstance(e.slice, ast.Slice):
            s = e.slice
            if s.lower is None and s.upper is None and (s.step is None or const_value(s.step) in (1, -1)):
                vals = self.ev(e.value, d + 1)
                return [_flip(v) for v in vals] if s.step is not None and const_value(s.step) == -1 else vals
            raise _undecided_order(fi, f"slice `{norm(e)[:60]}`")
        if isinstance(e, ast.Attribute) and chain(_expand(fi, e)) == "self.elements":
            return [("stored", "PF")]
        if isinstance(e, ast.Call):
            return self.call(e, d)
        raise _undecided_order(fi, f"`{norm(e)[:60]}` is not understood")

    def call(self, e: ast.Call, d: int) -> list:
        fi = self.fi
        f = e.func
        c = chain(f) or ""
        plain = not e.keywords and not any(isinstance(a, ast.Starred) for a in e.args)
        if isinstance(f, ast.Attribute) and f.attr == "get_plaintext_signed" and not e.args and plain:
            return [("one", self.tok(f.value))]
        if isinstance(f, ast.Attribute) and f.attr in ("values", "keys", "items") and not e.args and plain and chain(_expand(fi, f.value)) == "self.elements":
            return [("stored", "PF")]
        if isinstance(f, ast.Attribute) and f.attr == "join" and len(e.args) == 1 and plain:
            r = strip_cast(f.value)
            if (isinstance(r, ast.Constant) and r.value in (b"", "")) or (isinstance(r, ast.Call) and chain(r.func) in ("bytes", "str", "bytearray") and not r.args and not r.keywords):
                return self.ev(e.args[0], d + 1)
            raise _undecided_order(fi, f"`{norm(e)[:60]}` joins with a separator")
        if isinstance(f, ast.Attribute) and f.attr == "copy" and not e.args and plain:
            return self.ev(f.value, d + 1)
        shadow = {x for x in ("list", "tuple", "iter", "bytes", "bytearray", "deque", "reversed", "map", "filter", "memoryview") if local_defs(fi, x) or is_param(fi, x)}
        if c in _SEQ_COPIES and c not in shadow and plain and len(e.args) <= 1:
            return self.ev(e.args[0], d + 1) if e.args else [_EMPTY]
        if c == "reversed" and c not in shadow and plain and len(e.args) == 1:
            return [_flip(v) for v in self.ev(e.args[0], d + 1)]
        if c in ("map", "filter") and c not in shadow and plain and len(e.args) == 2:
            return self.ev(e.args[1], d + 1)
        if isinstance(f, ast.Attribute) and f.attr == "getvalue" and not e.args and plain and isinstance(strip_cast(f.value), ast.Name):
            return self.ev(f.value, d + 1)
        if c in ("BytesIO", "io.BytesIO") and plain and len(e.args) <= 1:
            return self.ev(e.args[0], d + 1) if e.args else [_EMPTY]
        if c in ("reduce", "functools.reduce") and plain and len(e.args) == 3 and isinstance(e.args[0], ast.Lambda) and len(e.args[0].args.args) == 2 and \
                not e.args[0].args.defaults and not e.args[0].args.vararg and not e.args[0].args.kwonlyargs and not e.args[0].args.kwarg:
            acc, item = (a.arg for a in e.args[0].args.args)
            b = strip_cast(e.args[0].body)
            if isinstance(b, ast.BinOp) and isinstance(b.op, ast.Add):
                sides = [strip_cast(b.left), strip_cast(b.right)]
                accs = [isinstance(x, ast.Name) and x.id == acc for x in sides]
                other = sides[1] if accs[0] else sides[0]
                onames = {x.id for x in ast.walk(other) if isinstance(x, ast.Name)}
                if sum(accs) == 1 and item in onames and acc not in onames and self.ev(e.args[2], d + 1) == [_EMPTY]:
                    vals = self.ev(e.args[1], d + 1)
                    return vals if accs[0] else [_flip(v) for v in vals]
            raise _undecided_order(fi, f"`{norm(e)[:60]}`: the folding function is not understood")
        if c in ("itertools.chain", "chain") and plain and (c != "chain" or fi.module.imports.get("chain") == ("itertools", "chain")):
            acc = [_EMPTY]
            for a in e.args:
                acc = self.product(acc, self.ev(a, d + 1), e)
            return acc
        return self.follow(e, d)

    # ---------------------------------------------------------------- helpers that the view could not inline
    def follow(self, e: ast.Call, d: int) -> list:
        fi = self.fi
        if self.depth >= 3:
            raise _undecided_order(fi, f"`{norm(e)[:60]}`: helpers nested too deeply")
        try:
            targets = self.ctx.repo.resolve_call(fi, e)
        except Exception:  # noqa: BLE001
            targets = []
        targets = [t for t in targets if isinstance(t, FuncInfo)]
        if len(targets) != 1 or not targets[0].module.relpath.startswith("ipv8/attestation/tokentree/") or targets[0].node is getattr(fi, "origin", fi).node:
            raise _undecided_order(fi, f"`{norm(e)[:60]}` is not understood")
        h = _view(self.ctx, targets[0])
        ps = h.params()
        if ps and ps[0] in ("self", "cls") and isinstance(e.func, ast.Attribute):
            if chain(e.func.value) not in ("self", "cls"):
                raise _undecided_order(fi, f"`{norm(e)[:60]}` is called on another object")
            ps = ps[1:]
        if any(isinstance(a, ast.Starred) for a in e.args) or any(k.arg is None for k in e.keywords) or len(e.args) > len(ps) or \
                h.node.args.vararg is not None or h.node.args.kwarg is not None:
            raise _undecided_order(fi, f"arguments of `{norm(e)[:60]}`")
        actual = dict(zip(ps, e.args))
        actual.update({k.arg: k.value for k in e.keywords if k.arg in ps})
        bind: dict[str, str] = {}
        seqs: dict[str, list] = {}
        for p, a in actual.items():
            bind[p] = self.tok(a)
            try:
                seqs[p] = self.ev(a, d + 1)
            except AnalysisError:
                pass
        sub = _OrderEval(self.ctx, h, bind, seqs, self.depth + 1)
        return sub.result()

    def result(self) -> list:
        """the sequence this function hands back: what it returns, or - for a generator - what it yields"""
        fi = self.fi
        ys = [x for x in _walk_scope(list(fi.node.body)) if isinstance(x, (ast.Yield, ast.YieldFrom))]
        if ys:
            return self.accumulated([(y, "append", y.value, isinstance(y, ast.YieldFrom)) for y in ys], [[_EMPTY]], None, "the yielded sequence")
        out: list = []
        rets = [r for r in _walk_scope(list(fi.node.body)) if isinstance(r, ast.Return)]
        if not rets:
            raise _undecided_order(fi, "no return")
        for r in rets:
            if r.value is None or _is_none(r.value):
                raise _undecided_order(fi, "returns None where a sequence is expected")
            for v in self.ev(r.value):
                if v not in out:
                    out.append(v)
        return out

    # ---------------------------------------------------------------- names: plain locals and accumulators
    def name(self, n: ast.Name, d: int) -> list:
        fi = self.fi
        nm = n.id
        defs = local_defs(fi, nm)
        updates: list = []            # (site, mode, element expression, is-a-sequence)
        inits: list = []
        flips: list = []
        for st, v, k in defs:
            if isinstance(st, ast.AugAssign) and isinstance(st.target, ast.Name) and st.target.id == nm:
                if not isinstance(st.op, ast.Add):
                    raise _undecided_order(fi, f"`{norm(st)[:60]}`")
                updates.append((st, "append", st.value, True))
            elif v is not None and k is None and isinstance(st, (ast.Assign, ast.AnnAssign)) and nm in {x.id for x in ast.walk(v) if isinstance(x, ast.Name)}:
                b = strip_cast(v)
                if isinstance(b, ast.BinOp) and isinstance(b.op, ast.Add) and isinstance(strip_cast(b.left), ast.Name) and strip_cast(b.left).id == nm and \
                        nm not in {x.id for x in ast.walk(b.right) if isinstance(x, ast.Name)}:
                    updates.append((st, "append", b.right, True))
                elif isinstance(b, ast.BinOp) and isinstance(b.op, ast.Add) and isinstance(strip_cast(b.right), ast.Name) and strip_cast(b.right).id == nm and \
                        nm not in {x.id for x in ast.walk(b.left) if isinstance(x, ast.Name)}:
                    updates.append((st, "prepend", b.left, True))
                elif isinstance(b, ast.Call) and isinstance(b.func, ast.Attribute) and b.func.attr == "join" and isinstance(strip_cast(b.func.value), ast.Constant) and \
                        strip_cast(b.func.value).value in (b"", "") and len(b.args) == 1 and not b.keywords and isinstance(b.args[0], (ast.Tuple, ast.List)) and \
                        len(b.args[0].elts) == 2 and sum(1 for x in b.args[0].elts if isinstance(strip_cast(x), ast.Name) and strip_cast(x).id == nm) == 1 and \
                        sum(1 for x in ast.walk(b) if isinstance(x, ast.Name) and x.id == nm) == 1:
                    first = isinstance(strip_cast(b.args[0].elts[0]), ast.Name) and strip_cast(b.args[0].elts[0]).id == nm
                    updates.append((st, "append" if first else "prepend", b.args[0].elts[1 if first else 0], True))
                else:
                    raise _undecided_order(fi, f"`{norm(st)[:60]}` rebuilds the sequence it extends")
            elif v is not None and k is None and isinstance(st, (ast.Assign, ast.AnnAssign)):
                inits.append((st, v))
            elif v is not None and k is None and not isinstance(st, (ast.For, ast.AsyncFor, ast.With, ast.AsyncWith, ast.AugAssign)):
                inits.append((st, v))                  # walrus
            else:
                raise _undecided_order(fi, f"`{nm}` is bound by `{head_text(st)}`")
        for x in _walk_scope(list(fi.node.body)):
            if not (isinstance(x, ast.Name) and x.id == nm and isinstance(x.ctx, ast.Load)):
                if isinstance(x, ast.Name) and x.id == nm and isinstance(x.ctx, ast.Del):
                    raise _undecided_order(fi, f"`{nm}` is deleted")
                continue
            p = parent(x)
            if isinstance(p, ast.Attribute) and p.value is x:
                cl = parent(p)
                if not (isinstance(cl, ast.Call) and cl.func is p):
                    raise _undecided_order(fi, f"`{norm(p)[:40]}` is read")
                a = p.attr
                plain = not cl.keywords and not any(isinstance(y, ast.Starred) for y in cl.args)
                if a in ("append", "appendleft") and len(cl.args) == 1 and plain:
                    updates.append((cl, "append" if a == "append" else "prepend", cl.args[0], False))
                elif a == "insert" and len(cl.args) == 2 and plain and const_value(cl.args[0]) == 0:
                    updates.append((cl, "prepend", cl.args[1], False))
                elif a in ("extend", "write") and len(cl.args) == 1 and plain:
                    updates.append((cl, "append", cl.args[0], True))
                elif a == "getvalue" and not cl.args and plain:
                    continue
                elif a == "reverse" and not cl.args and plain:
                    flips.append(cl)
                elif a in ("copy", "count", "index", "__len__", "hex", "join"):
                    continue
                else:
                    raise _undecided_order(fi, f"`{norm(cl)[:60]}` changes the sequence in a way that is not understood")
            elif isinstance(p, ast.Subscript) and p.value is x and isinstance(p.ctx, ast.Store) and isinstance(p.slice, ast.Slice) and p.slice.step is None and \
                    (p.slice.lower is None or const_value(p.slice.lower) == 0) and p.slice.upper is not None and const_value(p.slice.upper) == 0 and \
                    isinstance(parent(p), ast.Assign) and len(parent(p).targets) == 1:
                updates.append((parent(p), "prepend", parent(p).value, True))          # seq[:0] = chunk
            elif isinstance(p, ast.Subscript) and p.value is x and isinstance(p.ctx, (ast.Store, ast.Del)):
                raise _undecided_order(fi, f"`{norm(enclosing_stmt(p))[:60]}` writes into the sequence")
            elif isinstance(p, ast.Call) and any(y is x for y in p.args):
                pc = chain(p.func) or ""
                if not (pc in _SEQ_READERS or (isinstance(p.func, ast.Attribute) and p.func.attr == "join")):
                    raise _undecided_order(fi, f"`{norm(p)[:60]}` may change the sequence `{nm}`")
        # what cannot reach this read does not influence it (e.g. the accumulator of another branch that has returned already)
        here = self.cfg.nodes_for(n)
        if here and (updates or flips):
            def reaches(x: ast.AST) -> bool:
                ns = self.cfg.nodes_for(x)
                return not ns or any(h in self.cfg.reach(ns) for h in here)
            updates = [u for u in updates if reaches(u[0])]
            inits = [i for i in inits if reaches(i[0])]
            flips = [f_ for f_ in flips if reaches(f_)]
            if not updates and not flips and len(inits) != len(defs):
                out = []
                for st, v in inits:
                    for val in self.ev(v, d + 1):
                        if val not in out:
                            out.append(val)
                if not out:
                    raise _undecided_order(fi, f"no definition of `{nm}` reaches `{norm(enclosing_stmt(n))[:50]}`")
                return out
        if not updates and not flips:
            if not defs:
                if nm in self.seqs:
                    return self.seqs[nm]
                raise _undecided_order(fi, f"`{nm}` is not a local sequence")
            r = _reaching(fi, n)
            if r is None:
                if len(defs) == 1 and isinstance(defs[0][0], ast.While) and defs[0][1] is not None:
                    return self.ev(defs[0][1], d + 1)
                raise _undecided_order(fi, f"the definitions of `{nm}` that reach `{norm(enclosing_stmt(n))[:50]}`")
            out: list = []
            for st, v, k in r:
                if v is None or k is not None:
                    raise _undecided_order(fi, f"`{nm}` is bound by `{head_text(st)}`")
                for val in self.ev(v, d + 1):
                    if val not in out:
                        out.append(val)
            return out
        if not inits and nm in self.seqs and not local_defs(fi, nm):
            init_vals = [self.seqs[nm]]
        else:
            init_vals = [self.ev(v, d + 1) for st, v in inits]
        vals = self.accumulated(updates, init_vals, [st for st, v in inits], f"`{nm}`")
        if flips:
            # in-place reversal: understood when every path to this read passes each reversal (outside any loop: exactly once)
            site = self.cfg.nodes_for(n)
            for fl in flips:
                fn_ = self.cfg.nodes_for(fl)
                if _innermost_loop(fl, fi.node) is not None or not site or not fn_ or any(s in self.cfg.reach(cut_nodes=fn_) for s in site) or \
                        any(u in self.cfg.reach([w for x in fn_ for w, lab in x.succ if lab != "exc"]) for st, m_, el, sq in updates for u in self.cfg.nodes_for(st)):
                    raise _undecided_order(fi, f"`{norm(fl)}` is not executed exactly once between the last extension and the read of `{nm}`")
            if len(flips) % 2:
                vals = [_flip(v) for v in vals]
        return vals

    def accumulated(self, updates: list, init_vals: list, init_stmts: list | None, what: str) -> list:
        """value of a sequence that starts as one of init_vals and is extended by `updates` = (site, mode, element, is-sequence), all in ONE loop"""
        fi, cfg = self.fi, self.cfg
        if not updates:
            raise _undecided_order(fi, f"{what} is never extended")
        inloop = [(u, _innermost_loop(u[0], fi.node)) for u in updates]
        pre = [u for u, l in inloop if l is None]
        loops = {id(l): l for u, l in inloop if l is not None}
        if len(loops) > 1:
            raise _undecided_order(fi, f"{what} is extended in more than one loop")
        loop = next(iter(loops.values()), None)
        lnodes = cfg.nodes_for(loop) if loop is not None else []
        after = cfg.reach(lnodes) if lnodes else set()
        starts: list = []
        for vs in init_vals:
            for v in vs:
                if v not in starts:
                    starts.append(v)
        if not starts:
            raise _undecided_order(fi, f"{what} has no start value")
        for st in init_stmts or []:
            if any(x in after for x in cfg.nodes_for(st)) or _innermost_loop(st, fi.node) is not None:
                raise _undecided_order(fi, f"{what} is re-initialised in or after its loop")
        # extensions outside the loop: understood when they are straight-line code in front of the loop (same block, executed once, in order)
        anchor_st = loop if loop is not None else None
        blocks = set()
        for u in pre:
            st = enclosing_stmt(u[0])
            if any(x in after for x in cfg.nodes_for(u[0])):
                raise _undecided_order(fi, f"`{norm(u[0])[:50]}` extends {what} after its loop")
            blk = _block_of(st)
            blocks.add(id(blk))
            if blk is None or (anchor_st is not None and _block_of(anchor_st) is not blk) or len(blocks) > 1 or \
                    (init_stmts and any(_block_of(i) is not blk for i in init_stmts)):
                raise _undecided_order(fi, f"`{norm(u[0])[:50]}` extends {what} conditionally")
        pre.sort(key=lambda u: next((i for i, x in enumerate(_block_of(enclosing_stmt(u[0]))) if x is enclosing_stmt(u[0])), 0))
        for u in pre:
            part = self.ev(u[2]) if u[3] else [("one", self.tok(self.elem(u[2])))]
            starts = self.product(starts, part, u[0]) if u[1] == "append" else self.product(part, starts, u[0])
        if loop is None:
            return starts
        body = [u for u, l in inloop if l is loop]
        modes = {u[1] for u in body}
        if len(modes) != 1 or len(body) != 1:
            raise _undecided_order(fi, f"{what} is extended at {len(body)} places of its loop")
        site, mode, el, is_seq = body[0]
        if is_seq:
            el0 = strip_cast(el)
            if isinstance(el0, (ast.List, ast.Tuple)) and len(el0.elts) == 1 and not isinstance(el0.elts[0], ast.Starred):
                el = el0.elts[0]
            elif isinstance(el0, (ast.List, ast.Tuple, ast.Name)) and not (isinstance(el0, ast.Name)):
                raise _undecided_order(fi, f"`{norm(site)[:50]}` adds several elements at once")
        etok = self.elem(el)
        out: list = []
        if isinstance(loop, ast.While):
            cur, base = self.walk(loop, [site])
            if not (isinstance(etok, ast.Name) and etok.id == cur):
                raise _undecided_order(fi, f"`{norm(site)[:50]}` does not emit the token the walk just looked up")
            order = "CF" if mode == "append" else "PF"
            for s in starts:
                if s[0] == "empty":
                    v = ("chain", order, base, False)
                elif s[0] == "one" and s[1] == base:
                    v = ("chain", order, base, True)
                else:
                    raise _undecided_order(fi, f"{what} starts as {s} and is extended by the ancestors of {base}")
                if v not in out:
                    out.append(v)
            return out
        its = self.ev(loop.iter)
        tnames = {x.id for x in ast.walk(loop.target) if isinstance(x, ast.Name)}
        if not tnames & {x.id for x in ast.walk(el) if isinstance(x, ast.Name)}:
            raise _undecided_order(fi, f"`{norm(site)[:50]}` does not emit the element its loop iterates")
        for s in starts:
            for it in its:
                v = it if mode == "append" else _flip(it)
                if s[0] != "empty":
                    v = self.concat(s, v, site) if mode == "append" else self.concat(v, s, site)
                if v not in out:
                    out.append(v)
        return out

    def walk(self, loop: ast.While, sites: list) -> tuple[str, str]:
        """
        (cur, B) when `loop` walks from token B towards the root: its one lookup `cur = self.elements[k]` / `.get(k)` is keyed by the
        previous-pointer of B before the first iteration and by the previous-pointer of the token looked up last afterwards, and every
        given site (an emission) and the advance of the key see the token looked up in the same iteration.
        """
        fi, cfg = self.fi, self.cfg
        found = []
        for x in _walk_scope([loop.test, *loop.body]):
            if isinstance(x, ast.Subscript) and isinstance(x.ctx, ast.Load) and chain(_expand(fi, x.value)) == "self.elements" and not isinstance(x.slice, ast.Slice):
                found.append((x, x.slice))
            elif isinstance(x, ast.Call) and isinstance(x.func, ast.Attribute) and x.func.attr == "get" and 1 <= len(x.args) <= 2 and not x.keywords and \
                    chain(_expand(fi, x.func.value)) == "self.elements":
                found.append((x, x.args[0]))
        found = [(x, k) for x, k in found if _innermost_loop(x, fi.node) is loop]
        if len(found) != 1:
            raise _undecided_order(fi, f"{len(found)} lookups in self.elements in the loop `{head_text(loop)}`")
        look, k = found[0]
        p = parent(look)
        cur = None
        if isinstance(p, ast.NamedExpr) and p.value is look:
            cur = p.target.id
        elif isinstance(p, ast.Assign) and p.value is look and len(p.targets) == 1 and isinstance(p.targets[0], ast.Name):
            cur = p.targets[0].id
        elif isinstance(p, ast.AnnAssign) and p.value is look and isinstance(p.target, ast.Name):
            cur = p.target.id
        if cur is None:
            raise _undecided_order(fi, f"the token looked up by `{norm(look)[:50]}` is not bound to a name")
        bnodes = cfg.nodes_for(look)
        lnodes = cfg.nodes_for(loop)
        if not bnodes or not lnodes:
            raise _undecided_order(fi, "walk loop not found in the control-flow graph")
        stale = cfg.reach(lnodes, cut_nodes=bnodes)          # reached from the loop head without a new lookup
        after = cfg.reach(lnodes)

        def in_loop(st: ast.AST) -> bool:
            return st is loop or _inside(st, loop)

        def fresh(node: ast.AST) -> bool:
            ns = cfg.nodes_for(node)
            return bool(ns) and not any(x in stale for x in ns if x not in bnodes)
        cur_defs = local_defs(fi, cur)
        if [d for d in cur_defs if in_loop(d[0]) and d[1] is not look]:
            raise _undecided_order(fi, f"`{cur}` is rebound inside the walk")
        k = strip_cast(k)
        bases: set[str] = set()
        if isinstance(k, ast.Attribute) and k.attr == "previous_token_hash" and isinstance(k.value, ast.Name):
            if k.value.id != cur:
                raise _undecided_order(fi, f"the walk is keyed by `{norm(k)}` but looks up `{cur}`")
            outer = [d for d in cur_defs if not in_loop(d[0])]
            if not outer:
                if not is_param(fi, cur):
                    raise _undecided_order(fi, f"`{cur}` has no value before the walk")
                bases.add(self.bind.get(cur, cur))
            for st, v, idx in outer:
                if v is None or idx is not None or any(x in after for x in cfg.nodes_for(st)):
                    raise _undecided_order(fi, f"`{head_text(st)}` rebinds the cursor of the walk")
                bases.add(self.tok(v))
        elif isinstance(k, ast.Name) and not is_param(fi, k.id):
            kd = local_defs(fi, k.id)
            if not [d for d in kd if not in_loop(d[0])] or not [d for d in kd if in_loop(d[0])]:
                raise _undecided_order(fi, f"the key `{k.id}` of the walk is not advanced / not initialised")
            for st, v, idx in kd:
                v = strip_cast(v) if v is not None else None
                if not (isinstance(v, ast.Attribute) and v.attr == "previous_token_hash") or idx is not None:
                    raise _undecided_order(fi, f"`{head_text(st)}` does not advance the walk to a previous-pointer")
                if in_loop(st):
                    if not (isinstance(v.value, ast.Name) and v.value.id == cur and fresh(st)):
                        raise _undecided_order(fi, f"`{head_text(st)}` does not advance from the token looked up in the same iteration")
                else:
                    if any(x in after for x in cfg.nodes_for(st)):
                        raise _undecided_order(fi, f"`{head_text(st)}` re-initialises the key of the walk")
                    x = strip_cast(v.value)
                    if isinstance(x, ast.Name) and len([d for d in local_defs(fi, x.id) if not in_loop(d[0])]) + (1 if is_param(fi, x.id) else 0) != 1:
                        raise _undecided_order(fi, f"the start token `{x.id}` of the walk has several definitions")
                    bases.add(self.tok(x))
        else:
            raise _undecided_order(fi, f"key `{norm(k)[:40]}` of the walk")
        if len(bases) != 1:
            raise _undecided_order(fi, f"the walk starts from {sorted(bases)}")
        for s in sites:
            if not fresh(s):
                raise _undecided_order(fi, f"`{norm(s)[:50]}` can run before the lookup of its iteration")
        return cur, next(iter(bases))


def _block_of(st: ast.AST) -> list | None:
    """the statement list that holds st"""
    p = parent(st)
    if p is None:
        return None
    for f in ("body", "orelse", "finalbody"):
        lst = getattr(p, f, None)
        if isinstance(lst, list) and any(x is st for x in lst):
            return lst
    return None


def head_text(st: ast.AST) -> str:
    from ..model import head
    return head(st)[:60]


def rule_dump_order(ctx: Ctx) -> None:
    """serialize_public emits a token's parent before the token on every returning path"""
    sp = _view(ctx, ctx.repo.method("TokenTree", "serialize_public", TR))
    rets = [r for r in _walk_scope(list(sp.node.body)) if isinstance(r, ast.Return)]
    ctx.anchor(rets, "return in TokenTree.serialize_public")
    if any(isinstance(x, (ast.Yield, ast.YieldFrom)) for x in _walk_scope(list(sp.node.body))):
        raise AnalysisError("undecided: TokenTree.serialize_public is a generator")
    ev = _OrderEval(ctx, sp)
    for r in rets:
        if r.value is None:
            raise AnalysisError("undecided: TokenTree.serialize_public returns nothing on one path")
        vals = ev.ev(r.value)
        bad = [v for v in vals if (v[0] in ("chain", "stored") and v[1] == "CF") or v[0] == "mixed"]

        def say(v: tuple) -> str:
            if v[0] == "stored":
                return "every stored token in reverse insertion order (children before their parents)"
            if v[0] == "chain":
                return f"token {v[2]} first and then its ancestors towards the root (tip first)"
            return v[1]
        shown = ", ".join(v[0] + (":" + v[1] if v[0] in ("chain", "stored") else "") for v in vals)
        ctx.check(not bad, "dump-order", sp, r, f"`{norm(r)[:50]}` emits parents before their children ({shown})",
                  "TokenTree.serialize_public emits " + "; ".join(say(v) for v in bad) + ": a fresh tree that reloads the dump has to park every token until the "
                  "root-most one arrives, and the bounded waiting area (unchained_max_size, oldest evicted) loses the tokens parked first - a public "
                  "serialisation of more than unchained_max_size + 1 tokens no longer reloads to the same tree")


def run(ctx: Ctx) -> None:
    normalised = ctx.repo
    ctx.repo = _raw_repo(ctx.repo)          # the source as written; the views do their own (exact) inlining
    try:
        rule_signed_object(ctx)
        rule_verify_before_keep(ctx)
        rule_writers(ctx)
        rule_wake_all(ctx)
        rule_content(ctx)
        rule_wire(ctx)
        rule_dump_order(ctx)
    finally:
        ctx.repo = normalised
    residual = getattr(ctx, "_c16_residual", set())
    blind = sorted({f.at.partition(":")[2] for f in ctx.findings if f.at.partition(":")[2] in residual})
    if blind:
        raise AnalysisError("undecided: " + ", ".join(blind) + " keeps a `match` statement whose patterns / guards could not be turned exactly into the tests "
                            "Python executes for them; which case runs under which condition is unknown there, so the failed rule(s) decide nothing")
    ctx.assume("order independence follows from: acceptance of a token depends only on (signature, parent contained); every waiting child is woken when its parent arrives; "
               "the waiting area does not overflow (stated precondition). It is argued, not enumerated.")
    ctx.assume("signature primitive and sha3_256 are sound (trusted)")


WITNESSES = [
    {"name": "pre-fix: only first waiting child woken", "file": TR, "rule": "wake-all",
     "old": """        retry_tokens = [lost_token for lost_token in self.unchained
                        if lost_token.previous_token_hash == token.get_hash()]
        for retry_token in retry_tokens:
            self.unchained.pop(retry_token, None)
            if self.gather_token(retry_token) is None:
                self._logger.warning("Dropped illegal token %s!", retry_token)
""",
     "new": """        retry_token = None
        for lost_token in self.unchained:
            if lost_token.previous_token_hash == token.get_hash():
                retry_token = lost_token
                break
        if retry_token is not None:
            self.unchained.pop(retry_token)
            if self.gather_token(retry_token) is None:
                self._logger.warning("Dropped illegal token %s!", retry_token)
"""},
    {"name": "unverified tokens kept in waiting area", "file": TR, "rule": "verify-before-keep",
     "old": """        if token.verify(self.public_key):
            if token.previous_token_hash != self.genesis_hash and token.previous_token_hash not in self.elements:
                self.unchained[token] = None
                if len(self.unchained) > self.unchained_max_size:
                    self.unchained.popitem(False)
                self._logger.info("Delaying unchained token %s!", token)
                return None
""",
     "new": """        if token.previous_token_hash != self.genesis_hash and token.previous_token_hash not in self.elements:
            self.unchained[token] = None
            if len(self.unchained) > self.unchained_max_size:
                self.unchained.popitem(False)
            self._logger.info("Delaying unchained token %s!", token)
            return None
        if token.verify(self.public_key):
"""},
    {"name": "dangling token appended", "file": TR, "rule": "verify-before-keep",
     "old": "            if token.previous_token_hash != self.genesis_hash and token.previous_token_hash not in self.elements:",
     "new": "            if token.previous_token_hash != self.genesis_hash and token.previous_token_hash not in self.elements and not token.content:"},
    {"name": "waiting area unbounded", "file": TR, "rule": "verify-before-keep",
     "old": "                if len(self.unchained) > self.unchained_max_size:\n                    self.unchained.popitem(False)\n", "new": ""},
    {"name": "verify with signer-supplied key", "file": TR, "rule": "verify-before-keep",
     "old": "        if token.verify(self.public_key):\n            if token.previous_token_hash != self.genesis_hash",
     "new": "        if token.verify(getattr(token, \"public_key\", self.public_key)):\n            if token.previous_token_hash != self.genesis_hash"},
    {"name": "content attached without hash check", "file": TK, "rule": "content-binding",
     "old": "        if content_hash == self.content_hash:\n            self.content = content\n            return True\n        return False",
     "new": "        self.content = content\n        return content_hash == self.content_hash"},
    {"name": "foreign writer of elements", "file": "ipv8/attestation/identity/manager.py", "rule": "writers",
     "old": "        preceding = None if after is None else self.tree.elements.get(after.token_pointer, None)",
     "new": "        preceding = None if after is None else self.tree.elements.get(after.token_pointer, None)\n        if after is not None and preceding is None:\n            self.tree.elements[after.token_pointer] = preceding = Token(self.tree.genesis_hash, content_hash=after.token_pointer, signature=b\"\")"},
    {"name": "view keeps the given key object instead of its public part (a private key is a public key: other genesis)", "file": TR, "rule": "writers",
     "old": "            self.public_key = public_key.pub()\n            self.private_key = None",
     "new": "            self.public_key = public_key\n            self.private_key = None"},
    {"name": "chunk size off", "file": TR, "rule": "wire-chunks",
     "old": "        chunk_size = 64 + sig_len", "new": "        chunk_size = 32 + sig_len"},
    {"name": "root path skips signature check", "file": TR, "rule": "wire-chunks",
     "old": "        path = [token]\n        while maxdepth == -1 or maxdepth > steps:\n            if not current.verify(self.public_key):\n                return []\n",
     "new": "        path = [token]\n        while maxdepth == -1 or maxdepth > steps:\n"},
    {"name": "reload stops offering chunks after the first parked token (short-circuit and)", "file": TR, "rule": "wire-chunks",
     "old": "            correct &= self.gather_token(Token.unserialize(s, self.public_key, offset=i)) is not None",
     "new": "            correct = correct and self.gather_token(Token.unserialize(s, self.public_key, offset=i)) is not None"},
    {"name": "reload stops at the first parked token (early return)", "file": TR, "rule": "wire-chunks",
     "old": "            correct &= self.gather_token(Token.unserialize(s, self.public_key, offset=i)) is not None",
     "new": "            if self.gather_token(Token.unserialize(s, self.public_key, offset=i)) is None:\n                return False"},
    {"name": "gather_token appends without waking the waiting children", "file": TR, "rule": "writers",
     "old": "            self._append_chain_reaction_token(token)\n            return token",
     "new": "            self._append(token)\n            return token"},
    {"name": "woken token stays in the waiting area unless it is illegal (stale entries use up the bound)", "file": TR, "rule": "wake-all",
     "old": "            self.unchained.pop(retry_token, None)\n            if self.gather_token(retry_token) is None:\n",
     "new": "            if self.gather_token(retry_token) is None:\n                self.unchained.pop(retry_token, None)\n"},
    {"name": "token equality ignores the signature (distinct tokens collide as keys of the waiting area)", "file": SO, "rule": "wake-all",
     "old": "        return self.get_plaintext_signed() == other.get_plaintext_signed()",
     "new": "        return self.get_plaintext() == other.get_plaintext()"},
    {"name": "wake-up appends the waiting children without re-checking them", "file": TR, "rule": "verify-before-keep",
     "old": "            if self.gather_token(retry_token) is None:\n                self._logger.warning(\"Dropped illegal token %s!\", retry_token)",
     "new": "            self._append_chain_reaction_token(retry_token)"},
    {"name": "waiting area turned into an un-keyed list: every re-delivery of a waiting token takes another slot", "file": TR, "rule": "verify-before-keep",
     "old": "                self.unchained[token] = None\n                if len(self.unchained) > self.unchained_max_size:\n                    self.unchained.popitem(False)\n",
     "new": "                self.unchained.append(token)\n                if len(self.unchained) > self.unchained_max_size:\n                    self.unchained.pop(0)\n"},
    {"name": "wake-up selects the waiting tokens that are NOT children of the appended token", "file": TR, "rule": "wake-all",
     "old": "                        if lost_token.previous_token_hash == token.get_hash()]",
     "new": "                        if lost_token.previous_token_hash != token.get_hash()]"},
    {"name": "pre-fix: partial dump emits the chain tip first (appends while walking back to the root)", "file": TR, "rule": "dump-order",
     "old": "                out = token.get_plaintext_signed() + out\n",
     "new": "                out += token.get_plaintext_signed()\n"},
    {"name": "full dump emits the stored tokens newest first", "file": TR, "rule": "dump-order",
     "old": "        return b\"\".join(token.get_plaintext_signed() for token in self.elements.values())",
     "new": "        return b\"\".join(token.get_plaintext_signed() for token in reversed(self.elements.values()))"},
    {"name": "verify answers True when the walk ran out of its step budget", "file": TR, "rule": "wire-chunks",
     "old": "        return steps < maxdepth\n", "new": "        return steps <= maxdepth\n"},
    {"name": "walk verifies only every other token", "file": TR, "rule": "wire-chunks",
     "old": "            current = self.elements[current.previous_token_hash]\n            steps += 1\n        return steps < maxdepth",
     "new": "            current = self.elements[current.previous_token_hash]\n            if current.previous_token_hash in self.elements:\n"
            "                current = self.elements[current.previous_token_hash]\n            steps += 1\n        return steps < maxdepth"},
]
